"""C17 -- UART link.  Proved per function (from the real source, symbolic widths, unbounded integer fields):
UARTSerializer.clock (8N1 framing table: start 0, data LSB first, stop 1, one bit per clock pulse),
UARTDeserializer.clock (eight samples LSB first, emit on the ninth, one ready/valid hand-off), ClockSyncFSM.clock;
ClockDivider and EdgeDetector refine their reference machines (period 2n, one pulse per rising edge).
The end-to-end clause (every accepted byte delivered once, in order, through clock recovery, for every ratio >= 4)
is a protocol-level property of the product of five machines with a timing parameter: not within deductive reach
here; it is served by a bounded stand-in on the real blocks (labelled bounded, never counted as proved)."""
import io, contextlib, random, time
from pvc import run, work, leaf as L
from props import common

PROP = 'C17'


def _q(f, *a):
    with contextlib.redirect_stdout(io.StringIO()):
        return f(*a)


def _run_link(ratio, data, gap, ready_p, rnd):
    import py4hw
    import py4hw.logic.protocol.uart as UART
    s = py4hw.HWSystem(); w = s.wire
    s_ready = w('s_ready'); s_valid = w('s_valid'); s_v = w('s_v', 8); tx = w('tx')
    d_ready = w('d_ready'); d_valid = w('d_valid'); d_v = w('d_v', 8); desync = w('desync'); txp = w('txp'); rxs = w('rxs')
    UART.ClockGenerationAndRecovery(s, 'cg', tx, desync, txp, rxs, ratio, 1)
    UART.UARTSerializer(s, 'ser', s_ready, s_valid, s_v, txp, tx)
    UART.UARTDeserializer(s, 'des', tx, rxs, d_ready, d_valid, d_v, desync)
    sim = s.getSimulator()
    sent = []; recv = []; line = []
    idx = 0; wait = 0; t = 0
    maxt = len(data) * (ratio * 12 + gap + 20) + 200
    while t < maxt:
        if idx < len(data) and wait == 0:
            s_valid.put(1); s_v.put(data[idx])
        else:
            s_valid.put(0)
        d_ready.put(1 if ready_p is None else int(rnd.random() < ready_p))
        sim.propagateAll()
        acc = s_valid.get() and s_ready.get()
        took = d_valid.get() and d_ready.get()
        if took: recv.append(d_v.get())
        sim.clk(1)
        if acc:
            sent.append(data[idx]); idx += 1; wait = gap
        elif wait > 0 and s_ready.get():
            wait -= 1
        line.append(tx.get())
        t += 1
    return sent, recv, line


def _soft_rx(line, T):
    """independent 8N1 receiver: wait for a falling edge, sample mid-bit at the nominal period"""
    out = []; i = 1
    while i < len(line):
        if line[i - 1] == 1 and line[i] == 0:
            bits = [line[i + T // 2 + k * T] if i + T // 2 + k * T < len(line) else None for k in range(10)]
            if None in bits: break
            if bits[0] == 0 and bits[9] == 1: out.append(sum(b << k for k, b in enumerate(bits[1:9])))
            i = i + T // 2 + 9 * T
        else:
            i += 1
    return out


def link(ratios, seed=0, nbytes=12, **kw):
    rnd = random.Random(seed)
    evals = 0
    for ratio in ratios:
        T = 2 * (ratio // 2)
        for gap in (0, 1, 3, T, 2 * T):
            for rp in (None, 0.5):
                data = [rnd.choice([0x00, 0xFF, 0x55, 0xAA, 0x01, 0x80, 0x7E, rnd.randrange(256), rnd.randrange(256)]) for _ in range(nbytes)]
                try:
                    s, r, line = _q(_run_link, ratio, data, gap, rp, rnd)
                    soft = _soft_rx(line, T)
                    ok = (s == data and r == data and soft == s)
                    got = {'sent': s, 'received': r, 'software_receiver': soft}
                except Exception as e:
                    ok = False; got = 'raises %r' % (e,)
                evals += 1
                if not ok:
                    case = {'ratio': ratio, 'gap': gap, 'ready_probability': rp, 'data': data}
                    return [{'oid': 'link::uart@ratio=%d#bounded' % ratio, 'status': 'bounded-fail', 'bounded': True, 'evaluations': evals, 'model': case,
                             'cfg': {'ratio': ratio}, 'replay': {'reproduced': True, 'expected': {'delivered': data}, 'got': got, 'case': case}, 'function': 'UART link end to end'}]
    return [{'oid': 'link::uart@ratios=%s#bounded' % ','.join(map(str, ratios)), 'status': 'bounded-ok', 'bounded': True, 'evaluations': evals, 'function': 'UART link end to end'}]


def main(tier, seed, only=None):
    t0 = time.time()
    work._load_blocks()
    leaves = [('UARTSerializer', 'clock'), ('UARTDeserializer', 'clock'), ('ClockSyncFSM', 'clock')]
    ratios = list(range(4, 17)) if tier == 'quick' else list(range(4, 65)) + [434]
    nb = 12 if tier == 'quick' else 40
    items = common.leaf_items(leaves, tier, seed, timeout_s=30) + common.block_items(PROP, tier, seed)
    items += [('props.C17:link', dict(ratios=[r], seed=seed * 1000 + r, nbytes=nb)) for r in ratios]
    items = common.filter_only(items, only)
    res = [r for r in run.run_items(items) if r.get('status') != 'refused']
    return run.finish(PROP, tier, res, t0, level='proof', seed=seed,
                      functions=[L.LEAVES[k].qual for k in leaves] + ['py4hw/logic/clock.py::ClockDivider (refinement)', 'py4hw/logic/clock.py::EdgeDetector (refinement)'],
                      assumptions=common.STD_ASSUMPTIONS + [common.dropped_note(),
                          'proof level covers the per-function framing / decoding tables and the divider / edge-detector machines; the end-to-end delivery clause is NOT proved: it is the bounded part below'],
                      bounded_parts=[{'what': 'end-to-end link on the real blocks (serializer -> line -> clock recovery -> deserializer) with an independent software 8N1 receiver on the line',
                                      'ratios': '%d..%d%s' % (ratios[0], ratios[-1] if ratios[-1] != 434 else 64, ' and 434 (50 MHz / 115200)' if 434 in ratios else ''),
                                      'gaps': '0, 1, 3, T, 2T', 'receiver_pacing': 'always ready / ready with probability 0.5', 'bytes_per_run': nb,
                                      'not_bounded': 'nothing: this part is a sample'}],
                      canary_ok=work.canary(), min_obligations=100)
