"""C05 -- clock edges are atomic.  Proved in heap mode from the real source:
  * Wire.settleAll: every pending wire gets exactly its prepared value, all others keep theirs, the list is emptied;
  * ClockDriverSimulator.clockAll: every block of the list is stepped exactly once on the value map of the call, in a
    characterisation that does not mention the visiting order (state' = Fstate(block, state, epoch));
  * Simulator._clk_cycle: every block of an enabled domain is stepped on the PRE-edge value map (old epoch: a settle
    or propagate between two clockAll calls would change the epoch and break the obligation), pending list empty
    at exit, cycle counter + 1;  Simulator.clk(n): exactly n single cycles, nothing pending.
  * every clock() of the package refines the abstract clock contract: per-leaf frame obligations (leaves under
    contract) + an AST scan over ALL clock() methods (never put/settle, never store a wire value).
Order independence then follows because the post-state is a pointwise function of the pre-state (adjacent
transpositions generate all permutations: meta-step).  A bounded stand-in permutes the real lists."""
import random, time
from pvc import run, work, leaf as L
from props import common
from props.kernel_common import heap_item, q, bfail, bok, clock_methods_scan

PROP = 'C05'
FUNCS = ['Wire.settleAll', 'ClockDriverSimulator.clockAll', 'Simulator._clk_cycle', 'Simulator.clk',
         # registration: the domain lists _clk_cycle walks are built by topologicalSort (each sequential leaf once, under the simulator of its driver)
         'ClockDriverSimulator.__init__', 'ClockDriverSimulator.addClockable', 'Simulator.getOrCreateClockDriverSimulator', 'Simulator.topologicalSort']


def _design(rnd):
    import py4hw
    s = q(py4hw.HWSystem)
    w = s.wire
    a = w('a', 8); r1 = w('r1', 8); r2 = w('r2', 8); acc = w('acc', 8); su = w('su', 8); en = w('en'); rs = w('rs')
    q(py4hw.Reg, s, 'reg1', a, r1); q(py4hw.Reg, s, 'reg2', r1, r2, enable=en)
    q(py4hw.Add, s, 'add', acc, r2, su); q(py4hw.Reg, s, 'accr', su, acc, reset=rs)
    ra = w('ra', 3); wa = w('wa', 3); we = w('we'); rd = w('rd', 8)
    q(py4hw.Range, s, 'raddr', acc, 2, 0, ra); q(py4hw.Range, s, 'waddr', r1, 2, 0, wa)
    import py4hw.logic.storage as S_
    q(S_.SynchronousMemory, s, 'mem', ra, wa, we, rd, r2)
    cnt = w('cnt', 4); q(py4hw.Counter, s, 'cnt', rs, en, cnt)
    # a second clock driver ticking on the same edge (enable tied to 1) with a register path crossing both domains
    one = w('one'); q(py4hw.Constant, s, 'one', 1, one)
    g1 = w('g1', 8); g2 = w('g2', 8); g3 = w('g3', 8)
    q(py4hw.Reg, s, 'x1', a, g1)
    mid = q(py4hw.Reg, s, 'x2', g1, g2); mid.clockDriver = py4hw.ClockDriver('gclk', base=s.clockDriver, enable=one)
    q(py4hw.Reg, s, 'x3', g2, g3)
    obs = [r1, r2, acc, rd, cnt, g1, g2, g3]
    return s, dict(a=a, en=en, rs=rs, we=we), obs


def permutations(seed=0, n=6, **kw):
    rnd = random.Random(seed); evals = 0
    stim = [dict(a=rnd.getrandbits(8), en=rnd.getrandbits(1), rs=int(rnd.random() < 0.1), we=rnd.getrandbits(1)) for _ in range(40)]
    def trace(perm_seed, split):
        import py4hw
        py4hw.Wire.prepared = []
        s, ins, obs = _design(rnd)
        sim = q(s.getSimulator)
        if perm_seed is not None:
            pr = random.Random(perm_seed)
            for d in sim.clockDrivers.values(): pr.shuffle(d.clockables)
        out = []
        k = 0
        while k < len(stim):
            for nme, v in stim[k].items(): ins[nme].put(v)
            step = 1 if split is None else split[k % len(split)]
            # inputs are held for `step` cycles
            q(sim.clk, step)
            if py4hw.Wire.prepared: return 'prepared list not empty after clk: %d entries' % len(py4hw.Wire.prepared)
            out.append(tuple(o.get() for o in obs)); k += 1
        return out
    base = trace(None, None)
    if isinstance(base, list):
        for k in range(3, len(base)):
            want = (stim[k - 2]['a'], stim[k - 1]['a'], stim[k]['a'])
            got = (base[k][7], base[k][6], base[k][5])
            evals += 1
            if got != want:
                return bfail('edge::two-drivers-register-chain#bounded', evals, {'cycle': k}, {'g3,g2,g1': want}, {'g3,g2,g1': got}, 'Simulator._clk_cycle (two clock drivers on one edge)')
    else:
        return bfail('edge::prepared-left-over#bounded', evals, {}, 'empty pending list after clk', base, 'Simulator._clk_cycle')
    for it in range(n):
        t = trace(seed * 1000 + it, None); evals += 1
        if t != base:
            return bfail('edge::order-independence#bounded', evals, {'permutation_seed': seed * 1000 + it}, 'same trace for every visiting order', 'trace differs' if isinstance(t, list) else t, 'Simulator._clk_cycle')
    # clk(n) vs n x clk(1) with inputs held
    import py4hw
    for split in ([2], [3, 1], [5]):
        s1, i1, o1 = _design(rnd); sim1 = q(s1.getSimulator)
        s2, i2, o2 = _design(rnd); sim2 = q(s2.getSimulator)
        for k in range(12):
            for nme, v in stim[k].items(): i1[nme].put(v); i2[nme].put(v)
            c = split[k % len(split)]
            q(sim1.clk, c)
            for _ in range(c): q(sim2.clk, 1)
            evals += 1
            if [x.get() for x in o1] != [x.get() for x in o2]:
                return bfail('edge::clk-n-equals-n-clk-1#bounded', evals, {'split': split, 'step': k}, [x.get() for x in o2], [x.get() for x in o1], 'Simulator.clk')
    return bok('edge::permutations-and-splittings#bounded', evals, 'Simulator._clk_cycle / clk')


def main(tier, seed, only=None):
    t0 = time.time()
    work._load_contracts()
    leaves = [k for k in common.leaves_for(PROP)]
    items = [('props.kernel_common:heap_item', dict(qual=f, timeout_s=30 if tier == 'quick' else 120)) for f in FUNCS]
    # the pending list: every prepare() (Wire and BidirWire) appends the wire to Wire.prepared -- the list Wire.settleAll drains -- and settle() applies `next`
    # (the Wire / BidirWire method contracts carry props C06 and C05, so leaves_for(C05) includes them)
    items += common.leaf_items(leaves, tier, seed) + [('props.kernel_common:clock_methods_scan', {})]
    items += [('props.C05:permutations', dict(seed=seed * 10 + k, n=4 if tier == 'quick' else 30)) for k in range(4)]
    items = common.filter_only(items, only)
    res = run.run_items(items)
    # of the leaf runs C05 counts the frame obligations only
    keep = [r for r in res if r.get('bounded') or not r.get('function', '').endswith('.clock') or '#frame.' in r.get('oid', '') or '#post.prepared' in r.get('oid', '')
            or '#post.not_prepared' in r.get('oid', '') or r.get('status') in ('crash',) or '#undecided' in r.get('oid', '') or 'attributes_bound' in r.get('oid', '')]
    return run.finish(PROP, tier, keep, t0, level='proof', seed=seed,
                      functions=['py4hw/base.py::Wire.settleAll'] + ['py4hw/simulation.py::' + f for f in FUNCS[1:]] + [L.LEAVES[k].qual + ' (frame)' for k in leaves],
                      assumptions=['abstract clock contract (L1) used for obj.clock(): reads values only, never stores one, touches only its own state and the next of wires it drives, appends only those wires to Wire.prepared; state\' = Fstate(obj, state, epoch) with epoch a ghost identifying the current value map',
                                   'listeners notified at the end of a cycle do not touch the circuit (assumed: _notifyListeners modifies nothing)',
                                   'the lists of distinct clock domains are distinct objects and every block is listed once, under exactly one driver: the requires of _clk_cycle are the ensures of topologicalSort (proved: registration loop, getOrCreateClockDriverSimulator, addClockable), stated there with nearest() and existentials, here with the ghost functions dom / cidx / kidx (Skolem forms); assumed: allLeaves returns every clockable object once',
                                   'permutation invariance from the pointwise characterisation: adjacent transpositions generate all permutations (meta-step)',
                                   common.dropped_note()],
                      bounded_parts=[{'what': 'real design (register chain, accumulator feedback, synchronous memory, counter): shuffled clockables lists give identical 40-cycle traces; Wire.prepared empty after every clk; clk(n) vs n x clk(1) for splittings [2],[3,1],[5]'}],
                      trusted_extra=['heap-mode VC generator pvc/heap.py'], canary_ok=work.canary(), min_obligations=30)
