"""C10 -- a clock domain advances exactly when its enable is active.  Proved in heap mode:
  * getObjectClockDriver: returns the nearest ancestor-or-self carrying a driver (recursion against its own contract,
    specification function `nearest` given by its recursion equations), raises iff there is none;
  * Simulator._clk_cycle: every block listed under a driver whose enable wire read 0 BEFORE the edge keeps its state
    (and everything outside all domains does); every block of an enabled domain is stepped exactly once on the
    pre-edge values; domains do not interfere (the characterisation is pointwise per block);
  * ClockDriverSimulator.clockAll and GatedClock.propagate (leaf).
The clause on the OUTPUT wires of gated blocks (unchanged across a disabled edge) is part of the _clk_cycle contract:
only wires of stepped blocks are pending at settle time (clockAll: every newly pending wire is driven by a block of
that domain), so the wires of a gated-off block pass Wire.settleAll and the propagate() loop unchanged.  The bounded
stand-in on real gated designs remains as a cross-check."""
import random, time
from pvc import run, work, leaf as L
from props import common
from props.kernel_common import heap_item, q, bfail, bok

PROP = 'C10'
FUNCS = ['getObjectClockDriver', 'Simulator._clk_cycle', 'ClockDriverSimulator.clockAll',
         # blocks inherit the NEAREST ancestor's driver: every sequential leaf is registered under the simulator of nearest(leaf), nowhere else
         'Simulator.getOrCreateClockDriverSimulator', 'ClockDriverSimulator.addClockable', 'Simulator.topologicalSort']


def gated(seed=0, n=200, **kw):
    """two domains: the system clock and a gated one whose enable is (a) an input, (b) derived from a register inside
    the gated domain itself; reference model in Python"""
    import py4hw
    rnd = random.Random(seed); evals = 0
    for variant in ('input-enable', 'self-enable', 'nested', 'wide-enable', 'enable-from-other-domain'):
        s = q(py4hw.HWSystem)
        w = s.wire
        d = w('d', 8); en = w('en', 3 if variant == 'wide-enable' else 1); q1 = w('q1', 8); q2 = w('q2', 8); free = w('free', 8); t = w('t')
        blk = q(py4hw.Logic, s, 'gated')
        inner = blk
        if variant == 'nested':
            inner = q(py4hw.Logic, blk, 'inner')      # inherits the nearest ancestor's driver
        enw = en
        if variant == 'self-enable':
            # enable = NOT(bit 0 of q1): the domain disables itself after loading an odd value
            b0 = w('b0'); q(py4hw.Bit, s, 'b0', q1, 0, b0); enw = w('enw'); q(py4hw.Not, s, 'nb0', b0, enw)
        if variant == 'enable-from-other-domain':
            # the enable is the output of a register of the (ungated) system domain, changing at the very edge it gates
            enw = w('enr'); q(py4hw.Reg, s, 'enreg', en, enw)
        blk.clockDriver = py4hw.ClockDriver('gclk', base=s.clockDriver, enable=enw)
        q(py4hw.Reg, inner, 'r1', d, q1); q(py4hw.Reg, inner, 'r2', q1, q2)
        q(py4hw.Reg, s, 'rfree', d, free)          # ungated domain
        sim = q(s.getSimulator)
        m1 = m2 = mf = 0
        for step in range(n):
            dv = rnd.getrandbits(8); ev = rnd.getrandbits(3 if variant == 'wide-enable' else 1)
            d.put(dv); en.put(ev)
            q(sim.propagateAll)
            enabled = enw.get() != 0
            q(sim.clk, 1)
            if enabled: m1, m2 = dv, m1
            mf = dv
            evals += 1
            got = (q1.get(), q2.get(), free.get())
            if got != (m1, m2, mf):
                return bfail('gating::%s#bounded' % variant, evals, {'variant': variant, 'step': step, 'd': dv, 'en': ev, 'enabled_before_edge': enabled},
                             {'q1': m1, 'q2': m2, 'free': mf}, {'q1': got[0], 'q2': got[1], 'free': got[2]}, 'Simulator._clk_cycle (gated domain)')
    return bok('gating::three-variants#bounded', evals, 'gated clock domains')


def main(tier, seed, only=None):
    t0 = time.time()
    work._load_contracts()
    items = [('props.kernel_common:heap_item', dict(qual=f, timeout_s=30 if tier == 'quick' else 120)) for f in FUNCS]
    items += common.leaf_items([('GatedClock', 'propagate')], tier, seed)
    items += [('props.C10:gated', dict(seed=seed * 10 + k, n=100 if tier == 'quick' else 1000)) for k in range(4)]
    items = common.filter_only(items, only)
    res = run.run_items(items)
    return run.finish(PROP, tier, res, t0, level='proof', seed=seed,
                      functions=['py4hw/base.py::getObjectClockDriver'] + ['py4hw/simulation.py::' + f for f in FUNCS[1:]] + [L.LEAVES[('GatedClock', 'propagate')].qual],
                      assumptions=['abstract clock contract for obj.clock() as in C05 (it prepares only wires it drives)',
                                   'output-wire clause: proved in _clk_cycle -- every pending wire at settle time was prepared by a stepped block (clockAll: new pending wires belong to blocks of that domain), so a wire driven by a sequential block that was not stepped (gated-off domain) is not pending, keeps its value through Wire.settleAll, and is not written by the propagate() calls that follow (blocks that are also in the propagatables list are excluded from the clause)', 'termination of the getObjectClockDriver recursion: measure depth stated, decrease obligation not generated',
                                   'registration: topologicalSort is proved to register every sequential leaf under the simulator of nearest(leaf) (= what getObjectClockDriver returns), in no other list and only once; the ghost `dom` of the _clk_cycle contract is this `nearest` (its requires are the Skolem form of these ensures); assumed: allLeaves returns every clockable object, without duplicates',
                                   common.dropped_note()],
                      bounded_parts=[{'what': 'real two-domain designs (enable from an input; enable derived from a register inside the gated domain; driver placed on an ancestor) against a Python reference, including the output-wire clause', 'cycles_per_variant': 100 if tier == 'quick' else 1000}],
                      trusted_extra=['heap-mode VC generator pvc/heap.py'], canary_ok=work.canary(), min_obligations=20)
