"""C16 -- AXI4-Stream adapters: Axi2Reg / Reg2Axi refine the reference machines of the statement (one-step, all states and inputs, hence all schedules); statement clauses checked on the machine."""
from props import common

PROP = 'C16'


def main(tier, seed, only=None):
    return common.run_layered(PROP, tier, seed, only,
                              funcs=[],
                              min_obligations=50)
