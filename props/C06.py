"""C06 -- wire values always fit their declared width.
Deciding method: the four store paths of Wire/BidirWire (put, prepare, settle; __init__ stores 0) are proved from
the real source to establish 0 <= value < 2**width (symbolic width and argument); a package-wide AST scan
proves no other code stores to .value/.next/.width of a wire; every leaf's INV_wire obligation (inv_wire[...])
is discharged in the leaf runs (C07/C08/C09), and here for every leaf registered with C06."""
import ast, glob, os, time, warnings
warnings.simplefilter('ignore')
from pvc import run, work, leaf as L
from props import common

PROP = 'C06'


# receivers audited by hand: objects of classes unrelated to Wire that happen to have a field of the same name
AUDITED = {
    ('py4hw/external/intel/VectorWaveformFile.py', 'obj', 'value'): 'VWF parse-tree node (VWFObj), not a wire',
    ('py4hw/schematic.py', 'node', 'next'): 'AdjNode linked-list cell of the schematic graph helper, not a wire',
}


def store_scan(**kw):
    """no store to .value / .next / .width of any object outside the Wire/BidirWire methods; leaf-private
    `self.value` fields of Reg-like leaves are stores to a Logic object, not to a wire -- they are told apart by
    the receiver: `self.<attr> = ...` inside a class that is not Wire/BidirWire/FakeWire is a leaf field."""
    repo = L.REPO
    bad = []; scanned = 0; stores = 0
    for path in sorted(glob.glob(os.path.join(repo, 'py4hw', '**', '*.py'), recursive=True)):
        try:
            tree = ast.parse(open(path, encoding='utf-8', errors='replace').read())
        except SyntaxError:
            continue
        scanned += 1
        for cls in [n for n in ast.walk(tree) if isinstance(n, ast.ClassDef)] + [tree]:
            cname = getattr(cls, 'name', '<module>')
            for n in ast.walk(cls):
                targets = []
                if isinstance(n, ast.Assign): targets = n.targets
                elif isinstance(n, (ast.AugAssign, ast.AnnAssign)): targets = [n.target]
                for t in targets:
                    for x in ast.walk(t):
                        if isinstance(x, ast.Attribute) and isinstance(x.ctx, ast.Store) and x.attr in ('value', 'next', 'width'):
                            stores += 1
                            recv = x.value
                            is_self = isinstance(recv, ast.Name) and recv.id == 'self'
                            if is_self and cname in ('Wire', 'BidirWire'):
                                continue        # the contracted methods themselves
                            if is_self and cname not in ('<module>',):
                                continue        # a leaf-private field of a non-wire object
                            if cls is tree and any(isinstance(c2, ast.ClassDef) and any(n is y for y in ast.walk(c2)) for c2 in tree.body):
                                continue        # already visited inside its class
                            if (os.path.relpath(path, repo), ast.unparse(recv), x.attr) in AUDITED:
                                continue
                            bad.append('%s:%d store to .%s of %s' % (os.path.relpath(path, repo), n.lineno, x.attr, ast.unparse(recv)))
    ok = not bad
    return [{'oid': 'py4hw/**#no-direct-store-to-wire-fields', 'status': 'proved' if ok else 'refuted', 'mode': 'ast-scan',
             'backend': 'ast', 'seconds': 0.0, 'function': 'package scan',
             'replay': None if ok else {'reproduced': True, 'got': bad[:10], 'expected': 'wire fields are only stored by Wire/BidirWire methods'},
             'model': None if ok else {'sites': bad[:10]}, 'evaluations': scanned}]


def main(tier, seed, only=None):
    t0 = time.time()
    work._load_contracts()
    wire_methods = [(c, m) for c in ('Wire', 'BidirWire') for m in ('put', 'prepare', 'settle', 'get', 'getWidth')]
    leaves = [k for k in common.leaves_for(PROP) if k not in wire_methods]
    items = common.leaf_items(wire_methods + leaves, tier, seed) + [('props.C06:store_scan', {})]
    items = common.filter_only(items, only)
    res = run.run_items(items)
    # C06 counts, for the non-wire leaves, only the range obligations and the frame (the functional
    # postconditions belong to C07/C08/C09)
    keep = []
    for r in res:
        oid = r.get('oid', '')
        if any(oid.startswith('py4hw/base.py::%s.' % c) for c in ('Wire', 'BidirWire')) or 'no-direct-store' in oid \
           or '#inv_wire' in oid or '#frame.' in oid or '#width_nonneg' in oid or r.get('status') == 'crash' or r.get('bounded') \
           or '#undecided' in oid:
            keep.append(r)
    funcs = ['py4hw/base.py::%s.%s' % k for k in wire_methods] + [L.LEAVES[k].qual for k in leaves]
    return run.finish(PROP, tier, keep, t0, level='proof', functions=funcs, seed=seed,
                      assumptions=common.STD_ASSUMPTIONS + [common.dropped_note(),
                          'observation points (after construction, after clk, in listeners, in Waveform.clock) need nothing more: every mutation of a wire goes through the contracted methods (AST scan obligation)',
                          'Wire.__init__ stores the literal 0 (in range for every width >= 0); not a separate obligation'],
                      canary_ok=work.canary(), min_obligations=20)
