"""C13 -- single-precision floating-point blocks.  Real netlists (real constructors), leaf contracts composed,
statement-level specifications on the real values of the patterns written in integer arithmetic.  Comparator,
conversions and multiplier (opaque 24x24 product) are decided for all operands; the adder's error bound is split
into exponent-gap x effective-operation slices whose union is the whole domain; a slice the solver leaves open
within the budget is served by the bounded stand-in and reported as bounded."""
from props import common

PROP = 'C13'


def main(tier, seed, only=None):
    return common.run_layered(PROP, tier, seed, only, min_obligations=20,
                              assumptions_extra=['real value of a normal pattern = (-1)**s * (2**23+f) * 2**(e-150), compared in exact integer arithmetic after scaling by a common power of two',
                                                 'FPMult_SP: the 24x24 product is an uninterpreted (congruent) function with its interval; the error bound holds for every value of that function',
                                                 'FPAdder_SP quick tier runs the gap slices {0..3, 22..33, 64, 128, 253}; thorough runs all 254 gaps'])
