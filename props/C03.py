"""C03 -- emitted Verilog is self-consistent: it parses, resolves and elaborates.
This property quantifies over programs; what is within deductive reach is (a) finite-domain lemmas, proved by
complete enumeration (getValidVerilogName over the three reserved-word lists; symbolic executor on getWidthInfo /
getInstanceName), and (b) the postcondition WF(text) -- every identifier declared exactly once and not reserved, every
instance resolved to exactly one module with matching ports, one driver of the right kind per net, selects inside
the declared ranges, legal replication counts, parameters with values -- evaluated as a run-time contract by the
pvc.vsem elaborator on every text generated for the design set of C01, an adversarial naming set and the
structure-name interchangeability sets.  Level: bounded contract checking (exploration), lemmas listed separately."""
import io, contextlib, time, re, ast, os
from pvc import run, work, vsem, netlist as N, leaf as L, ir
from props import common
from props.C01 import wrap, _adv, _multi

PROP = 'C03'


def _q(f, *a, **k):
    with contextlib.redirect_stdout(io.StringIO()):
        return f(*a, **k)


def _norm(msg):
    return re.sub(r'_[0-9a-f]{10,}', '_<id>', msg)


def wf_of_top(top, base, cfg=None, name=None):
    from py4hw.rtl_generation import VerilogGenerator, getVerilogModuleName
    out = []
    try:
        text = _q(VerilogGenerator(top).getVerilogForHierarchy)
        topname = getVerilogModuleName(top, noInstanceNumber=True)
    except Exception as e:
        return [{'oid': base + '#generation', 'status': 'refused', 'bounded': True, 'evaluations': 0, 'reason': repr(e)[:200]}], None
    errs = []
    try:
        mods = vsem.parse(text)
        d = vsem.Design(mods, topname)
        # force the elaboration of every expression (selects, replications, undeclared identifiers)
        topm = d.mods[topname]
        vin = {p[1]: ir.var('in:' + p[1], 0, (1 << (d.width_of(topm, p[1]) or 1)) - 1) for p in topm.ports if p[0] == 'input'}
        vstate = {}
        try:
            tmp = vsem.Design(mods, topname); tmp.build(vin, {})
        except vsem.VError:
            pass
        for k_, info in getattr(tmp, 'state', {}).items():
            vstate[k_] = ir.var('st:' + k_, 0, (1 << info['width']) - 1)
        try:
            d.build(vin, vstate)
        except vsem.VError as e:
            errs.append(str(e))
        errs += d.errors
    except vsem.VError as e:
        errs.append('does not parse: %s' % e)
    seen = set()
    for e in errs:
        ne = _norm(e)
        if ne in seen: continue
        seen.add(ne)
        out.append({'oid': '%s#WF[%s]' % (base, ne[:90]), 'status': 'bounded-fail', 'bounded': True, 'evaluations': 1, 'cfg': dict(cfg or {}, block=name), 'model': {'error': ne},
                    'replay': {'reproduced': True, 'got': e, 'expected': 'a closed legal design', 'verilog': text[:3000]}, 'function': name or base})
    if not errs:
        out.append({'oid': base + '#WF', 'status': 'bounded-ok', 'bounded': True, 'evaluations': 1, 'function': name or base})
    return out, text


def design_item(name, cfg, **kw):
    work._load_blocks()
    b = N.BLOCKS[name]
    base = 'design::%s@%s' % (name, work._cfg_tag(cfg))
    try:
        sys_, top, pin, pout, ins, outs = wrap(name, b.make, cfg)
    except Exception as e:
        return [{'oid': base + '#refused', 'status': 'refused', 'bounded': True, 'evaluations': 0}]
    return wf_of_top(top, base, cfg, name)[0]


def adv_item(name, k, **kw):
    make, cfgs = _adv()[name]; cfg = cfgs[k]
    base = 'design::adv.%s@%s' % (name, work._cfg_tag(cfg))
    try:
        sys_, top, pin, pout, ins, outs = wrap(name, make, cfg)
    except Exception as e:
        return [{'oid': base + '#refused', 'status': 'refused', 'bounded': True, 'evaluations': 0}]
    return wf_of_top(top, base, cfg, 'adv.' + name)[0]


# ---- adversarial naming set -----------------------------------------------------------------------------------
def _naming():
    import py4hw
    D = {}
    def mk(build):
        def f():
            s = _q(py4hw.HWSystem)
            class Top(py4hw.Logic):
                def __init__(self, parent, name):
                    super().__init__(parent, name)
                    build(self, s)
            return _q(Top, s, 'top')
        return f
    def reserved_wire(t, s):
        a = s.wire('input', 4); r = s.wire('output', 4); t.addIn('input', a); t.addOut('output', r)
        x = t.wire('wire', 4); py4hw.Not(t, 'n1', a, x); py4hw.Not(t, 'reg', x, r)
    D['reserved-words-as-port-wire-instance-names'] = mk(reserved_wire)
    def prefix_clash(t, s):
        a = s.wire('w_x', 4); r = s.wire('r', 4); t.addIn('w_x', a); t.addOut('r', r)
        x = t.wire('x', 4); py4hw.Not(t, 'n1', a, x); py4hw.Not(t, 'n2', x, r)
    D['port-w_x-and-local-wire-x'] = mk(prefix_clash)
    def clk_port(t, s):
        c = s.wire('user_clk', 1); d = s.wire('d', 4); q_ = s.wire('q', 4); t.addIn('clk', c); t.addIn('d', d); t.addOut('q', q_)
        e = t.wire('e'); py4hw.Buf(t, 'b', c, e); py4hw.Reg(t, 'r', d, q_, enable=e)
    D['user-port-named-clk'] = mk(clk_port)
    def two_abs(t, s):
        a = s.wire('a', 8); r1 = s.wire('r1', 8); r2 = s.wire('r2', 8); inv = s.wire('inv', 1)
        t.addIn('a', a); t.addOut('r1', r1); t.addOut('r2', r2); t.addOut('inv', inv)
        py4hw.Abs(t, 'abs1', a, r1); py4hw.Abs(t, 'abs2', a, r2, inverted=inv)
    D['two-Abs8-with-and-without-inverted'] = mk(two_abs)
    def two_abs_rev(t, s):
        a = s.wire('a', 8); r1 = s.wire('r1', 8); r2 = s.wire('r2', 8); inv = s.wire('inv', 1)
        t.addIn('a', a); t.addOut('r1', r1); t.addOut('r2', r2); t.addOut('inv', inv)
        py4hw.Abs(t, 'abs2', a, r2, inverted=inv); py4hw.Abs(t, 'abs1', a, r1)
    D['two-Abs8-inverted-first'] = mk(two_abs_rev)
    def same_name_reuse(t, s):
        a = s.wire('a', 8); b = s.wire('b', 8); r1 = s.wire('r1', 8); r2 = s.wire('r2', 8); ci = s.wire('ci', 1)
        for n_, w_ in (('a', a), ('b', b), ('ci', ci)): t.addIn(n_, w_)
        t.addOut('r1', r1); t.addOut('r2', r2)
        py4hw.Add(t, 'add1', a, b, r1); py4hw.Add(t, 'add2', a, b, r2, ci=ci)
    D['Add8-with-and-without-carry-in'] = mk(same_name_reuse)
    def shift_param(t, s):
        a = s.wire('a', 8); r = s.wire('r', 8); t.addIn('a', a); t.addOut('r', r)
        import py4hw.logic.bitwise as B
        B.ShiftLeftConstant(t, 'sh', a, 3, r)
    D['ShiftLeftConstant-parameter'] = mk(shift_param)
    def nested_same_wire_names(t, s):
        a = s.wire('a', 4); r = s.wire('r', 4); t.addIn('a', a); t.addOut('r', r)
        m = t.wire('m', 4)
        inner = py4hw.Logic(t, 'inner'); inner.addIn('a', a); inner.addOut('m', m)
        m2 = inner.wire('m', 4)      # same local name as the parent's wire
        py4hw.Not(inner, 'n1', a, m2); py4hw.Not(inner, 'n2', m2, m)
        py4hw.Not(t, 'n3', m, r)
    D['nested-scope-reuses-wire-name'] = mk(nested_same_wire_names)
    # parameters: declarations, literal overrides, forwarding under the same and under different names (two levels)
    import importlib.util, os
    spec = importlib.util.spec_from_file_location('corpus_designs_params', os.path.join(os.path.dirname(os.path.dirname(os.path.abspath(__file__))), 'corpus', 'designs', 'params.py'))
    P = importlib.util.module_from_spec(spec); spec.loader.exec_module(P)
    D['parameter-forwarded-under-other-names'] = mk(lambda t, s: P.forwarded(t, s, 'BOOT', 'START'))
    D['parameter-forwarded-under-the-same-name'] = mk(lambda t, s: P.forwarded(t, s, 'INIT', 'INIT'))
    D['parameter-forwarded-child-name-reused-above'] = mk(lambda t, s: P.forwarded(t, s, 'START', 'INIT'))
    # transpiled behavioural children (local temporaries, constructor constants) and hand-written memory bodies inside a structural top
    def behavioural(fname):
        def build(t, s):
            spec2 = importlib.util.spec_from_file_location('corpus_beh_' + fname, os.path.join(os.path.dirname(os.path.dirname(os.path.abspath(__file__))), 'corpus', 'behavioural', fname + '.py'))
            M = importlib.util.module_from_spec(spec2)
            import sys as _sys
            _sys.modules[spec2.name] = M
            spec2.loader.exec_module(M)
            u = M.make(t)
            for p_ in u.inPorts: t.addIn(p_.name, p_.wire)
            for p_ in u.outPorts: t.addOut(p_.name, p_.wire)
        return build
    for fname in ('locals_and_const', 'nested_ops', 'if_elif_chain', 'match_case', 'comb_mux'):
        D['behavioural-child-' + fname] = mk(behavioural(fname))
    def memories(t, s):
        from py4hw.logic import storage as S_
        ra = s.wire('ra', 2); wa = s.wire('wa', 2); we = s.wire('we'); rd = s.wire('rd', 4); wd = s.wire('wd', 4); rd2 = s.wire('rd2', 4)
        for n_, w_ in (('ra', ra), ('wa', wa), ('we', we), ('wd', wd)): t.addIn(n_, w_)
        t.addOut('rd', rd); t.addOut('rd2', rd2)
        S_.SynchronousMemory(t, 'smem', ra, wa, we, rd, wd); S_.AsynchronousMemory(t, 'amem', ra, wa, we, rd2, wd)
    D['synchronous-and-asynchronous-memory-bodies'] = mk(memories)
    return D


def multi_item(name, **kw):
    base = 'design::multi.' + name
    try:
        sys_, top, pin, pout, ins, outs = wrap('multi_' + ''.join(ch if ch.isalnum() else '_' for ch in name), _multi()[name], {})
    except Exception as e:
        return [{'oid': base + '#refused', 'status': 'refused', 'bounded': True, 'evaluations': 0, 'reason': repr(e)[:200]}]
    return wf_of_top(top, base, {'design': name}, name)[0]


def naming_item(name, **kw):
    base = 'naming::' + name
    try:
        top = _naming()[name]()
    except Exception as e:
        return [{'oid': base + '#refused', 'status': 'refused', 'bounded': True, 'evaluations': 0, 'reason': repr(e)[:200]}]
    return wf_of_top(top, base, None, name)[0]


# ---- structure names: objects emitted under one module name must be interchangeable ---------------------------
def structure_names(**kw):
    """for every block of the registry, group the instances of its configuration grid by module name and compare the
    module text emitted for each member (interface and body)"""
    from py4hw.rtl_generation import VerilogGenerator, getVerilogModuleName
    work._load_blocks()
    out = []; evals = 0
    groups = {}
    for name, b in N.BLOCKS.items():
        cfgs = b.cfgs('quick')
        for cfg in (cfgs if len(cfgs) <= 600 else cfgs[:: max(1, len(cfgs) // 600)]):
            try:
                import py4hw
                s = _q(py4hw.HWSystem); obj, ins, outs = _q(b.make, s, dict(cfg))
            except Exception:
                continue
            if not hasattr(obj, 'structureName'): continue
            try:
                mn = getVerilogModuleName(obj)
                text = _q(VerilogGenerator(obj).getVerilog, obj)
            except Exception:
                continue
            body = text[text.index('module'):] if 'module' in text else text
            evals += 1
            groups.setdefault(mn, []).append((name, cfg, re.sub(r'_[0-9a-f]{10,}', '_<id>', body)))
    for mn, members in sorted(groups.items()):
        texts = set(m[2] for m in members)
        if len(texts) > 1:
            a, b_ = members[0], next(m for m in members if m[2] != members[0][2])
            out.append({'oid': 'structureName::%s#interchangeable' % mn, 'status': 'bounded-fail', 'bounded': True, 'evaluations': evals, 'model': {'module': mn, 'cfg_a': a[1], 'cfg_b': b_[1]},
                        'cfg': {'module': mn}, 'replay': {'reproduced': True, 'got': 'two objects named %s emit different module text' % mn, 'expected': 'identical text', 'text_a': a[2][:1200], 'text_b': b_[2][:1200]},
                        'function': 'structureName of ' + a[0]})
    if not out:
        out.append({'oid': 'structureName::all#interchangeable', 'status': 'bounded-ok', 'bounded': True, 'evaluations': evals, 'function': 'structureName'})
    return out


# ---- finite lemmas --------------------------------------------------------------------------------------------
def lemmas(**kw):
    from py4hw import rtl_generation as RG
    out = []
    src = open(os.path.join(L.REPO, 'py4hw/rtl_generation.py'), encoding='utf-8', errors='replace').read()
    tree = ast.parse(src)
    words = set()
    for f in tree.body:
        if isinstance(f, ast.FunctionDef) and f.name == 'isReservedVerilogKeyword':
            for n in ast.walk(f):
                if isinstance(n, ast.List):
                    words.update(e.value for e in n.elts if isinstance(e, ast.Constant) and isinstance(e.value, str))
    bad = [w for w in sorted(words) if RG.isReservedVerilogKeyword(RG.getValidVerilogName(w)) or not RG.isReservedVerilogKeyword(w)]
    out.append({'oid': 'py4hw/rtl_generation.py::getValidVerilogName#never-returns-a-listed-reserved-word', 'status': 'proved' if not bad and len(words) > 150 else 'refuted',
                'mode': 'finite-enumeration', 'backend': 'enumeration', 'seconds': 0.0, 'evaluations': len(words), 'function': 'getValidVerilogName',
                'model': None if not bad else {'words': bad[:10]}, 'replay': None if not bad else {'reproduced': True, 'got': bad[:10], 'expected': 'no reserved word returned'}})
    # the lists themselves against the reserved words of IEEE 1364-2005 (what an identifier must avoid)
    missing = sorted(w for w in vsem.RESERVED if not RG.isReservedVerilogKeyword(w))
    out.append({'oid': 'py4hw/rtl_generation.py::isReservedVerilogKeyword#covers-IEEE-1364-2005-keywords', 'status': 'proved' if not missing else 'refuted',
                'mode': 'finite-enumeration', 'backend': 'enumeration', 'seconds': 0.0, 'evaluations': len(vsem.RESERVED), 'function': 'isReservedVerilogKeyword',
                'model': None if not missing else {'missing': missing}, 'cfg': {'missing': missing},
                'replay': None if not missing else {'reproduced': True, 'got': 'not recognised as reserved: %s' % missing, 'expected': 'every IEEE 1364-2005 keyword is recognised'}})
    return out


def main(tier, seed, only=None):
    t0 = time.time()
    work._load_blocks()
    items = []
    for name, b in N.BLOCKS.items():
        if name == 'FPAdder_SP' and tier == 'quick': continue
        cfgs = b.cfgs(tier)
        k = 3 if tier == 'quick' else 10
        for cfg in cfgs[:: max(1, len(cfgs) // k)][:k]:
            items.append(('props.C03:design_item', dict(name=name, cfg=cfg)))
    for nm, (mk, cfgs) in _adv().items():
        items += [('props.C03:adv_item', dict(name=nm, k=k)) for k in range(len(cfgs))]
    items += [('props.C03:naming_item', dict(name=nm)) for nm in _naming()]
    items += [('props.C03:multi_item', dict(name=nm)) for nm in _multi()]
    items += [('props.C03:structure_names', {}), ('props.C03:lemmas', {})]
    items = common.filter_only(items, only)
    res = [r for r in run.run_items(items) if r.get('status') != 'refused']
    nd = len([r for r in res if r.get('bounded')])
    distinct = len(set(r['oid'].split('#')[0] for r in res))
    return run.finish(PROP, tier, res, t0, level='exploration', seed=seed,
                      functions=['py4hw/rtl_generation.py::getValidVerilogName (finite lemma)', 'py4hw/rtl_generation.py::isReservedVerilogKeyword (finite lemma)',
                                 'py4hw/rtl_generation.py::VerilogGenerator.* (postcondition WF(text) checked at run time on the design sets)'],
                      assumptions=['WF(text) is evaluated by the pvc.vsem elaborator (its reading of IEEE 1364-2005: selects on scalars and outside ranges, zero/negative replication, parameters without value, reserved identifiers, single driver of the right kind, instance/port resolution)'],
                      extra_cov={'evaluations': nd, 'distinct_nontrivial': distinct, 'rule': 'one evaluation = WF(text) of one generated design; distinct = distinct (design, configuration) pairs; non-trivial = the design contains at least one instance or assign',
                                 'samples': [r['oid'] for r in res[:6]]},
                      bounded_parts=[{'what': 'design sets enumerated: block registry x configurations, adversarial parameters, adversarial naming set, structure-name groups', 'designs': len(items)}],
                      trusted_extra=['pvc/vsem.py elaborator'], canary_ok=work.canary(), min_obligations=2)
