"""shared driver pieces for the per-property modules"""
import time, os
from pvc import run, work, leaf as L

STD_ASSUMPTIONS = [
    'Python ints are mathematical integers (true in CPython); no machine arithmetic is approximated',
    'a leaf method reads and writes only through its own attributes (shape reflected from a live instance of the real class)',
    'written wires do not alias read wires inside one leaf call (single-driver invariant C11 + acyclicity C04)',
    'Wire.get/put/prepare/getWidth are replaced at call sites by their contracts, which C06 proves against py4hw/base.py',
]


def leaf_items(names, tier, seed, timeout_s=None):
    timeout_s = timeout_s or (10 if tier == 'quick' else 60)
    return [('pvc.work:leaf_item', dict(cls=c, meth=m, tier=tier, timeout_s=timeout_s, seed=seed)) for (c, m) in names]


def func_items(names, tier, seed, timeout_s=None):
    timeout_s = timeout_s or (10 if tier == 'quick' else 60)
    return [('pvc.work:func_item', dict(name=n, tier=tier, timeout_s=timeout_s, seed=seed)) for n in names]


def leaves_for(prop):
    work._load_contracts()
    return [k for k, c in L.LEAVES.items() if prop in c.props]


def filter_only(items, only):
    if not only: return items
    return [it for it in items if only.lower() in str(it[1]).lower()]


def dropped_note():
    return ('extraction drops exactly: docstrings and other constant expression statements, print(...) calls, '
            'import statements inside bodies, comments; any other construct outside the subset makes the function undecided')


def block_items(prop, tier, seed, kind='comb', timeout_s=None):
    from pvc import netlist as N
    work._load_blocks()
    timeout_s = timeout_s or (10 if tier == 'quick' else 60)
    items = []
    for name, b in N.BLOCKS.items():
        if prop not in b.props: continue
        fn = 'pvc.work:seq_item' if b.seq is not None else 'pvc.work:comb_item'
        for cfg in b.cfgs(tier):
            items.append((fn, dict(name=name, cfg=cfg, tier=tier, timeout_s=timeout_s, seed=seed)))
    return items


def run_layered(prop, tier, seed, only, extra_items=(), functions_extra=(), assumptions_extra=(), level='proof',
                min_obligations=20, funcs=(), bounded_parts=None, post=None, trusted_extra=None):
    """leaf contracts (L1) + compositions (L3) of one property"""
    from pvc import netlist as N
    t0 = time.time()
    work._load_blocks()
    leaves = leaves_for(prop)
    items = leaf_items(leaves, tier, seed) + func_items(list(funcs), tier, seed) + block_items(prop, tier, seed) + list(extra_items)
    items = filter_only(items, only)
    res = run.run_items(items)
    if post: res = post(res)
    refused = [r for r in res if r.get('status') == 'refused']
    res = [r for r in res if r.get('status') != 'refused']
    fns = [L.LEAVES[k].qual for k in leaves] + ['%s::%s' % (L.FUNCS[f].file, L.FUNCS[f].qual) for f in funcs]
    fns += ['%s::%s (composition of leaf contracts)' % (b.file, n) for n, b in N.BLOCKS.items() if prop in b.props]
    fns += list(functions_extra)
    bp = list(bounded_parts or [])
    bp.append({'what': 'configuration grid of structural blocks (widths / arities / constants enumerated; the real constructor is executed, not symbolically analysed)',
               'configurations': len([i for i in items if 'cfg' in i[1]]), 'refused_by_constructor': len(refused),
               'not_bounded': 'operand values, register states, history length'})
    return run.finish(prop, tier, res, t0, level=level, functions=fns, seed=seed,
                      assumptions=STD_ASSUMPTIONS + [dropped_note(),
                          'the evaluation order used to compose leaf contracts is the one the real Simulator computes; that one pass in this order reaches the fixpoint is C04',
                          'leaf contracts are used in compositions as proved in this same run (leaf obligations of this property) or in the run of the property the leaf is registered with'] + list(assumptions_extra),
                      bounded_parts=bp, canary_ok=work.canary(), min_obligations=min_obligations, trusted_extra=trusted_extra)
