"""C14 -- fixed-point blocks agree with exact scaled-integer arithmetic: compositions of proved leaf contracts per format, all operand encodings; signExtend helper proved parametrically."""
from props import common

PROP = 'C14'


def main(tier, seed, only=None):
    return common.run_layered(PROP, tier, seed, only,
                              funcs=['signExtend'],
                              min_obligations=50)
