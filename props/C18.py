"""C18 -- a schematic shows the circuit that exists.  The contract of Schematic.placeAndRoute is expressible (see
`postcondition` below) but not dischargeable: 2.4 kLoC of heuristic, numpy-backed, object-graph code with swallowed
exceptions.  The brief's answer for such a function is a bounded check, labelled bounded and never counted as proved:
the postcondition is evaluated as a run-time contract on every structural block of the composition registry and on
seeded random netlists (fan-out, register feedback, long forward edges), each under a wall-clock limit."""
import io, contextlib, random, time, signal
from pvc import run, work, netlist as N
from props import common

PROP = 'C18'
LIMIT_S = 60


def _q(f, *a, **k):
    with contextlib.redirect_stdout(io.StringIO()), contextlib.redirect_stderr(io.StringIO()):
        return f(*a, **k)


class _Timeout(Exception):
    pass


def _with_limit(f, seconds):
    def h(sig, frm): raise _Timeout()
    old = signal.signal(signal.SIGALRM, h); signal.alarm(seconds)
    try:
        return f()
    finally:
        signal.alarm(0); signal.signal(signal.SIGALRM, old)


def postcondition(obj, sch):
    """returns a list of violated clauses (empty = holds)"""
    import py4hw
    from py4hw import schematic_symbols as SS
    bad = []
    virtual = (SS.VirtualSymbol, SS.MissingConnectionSymbol)
    real = [s for s in sch.objs if not isinstance(s, virtual)]
    # (a) exactly one symbol for each child instance and each port of the block
    want = list(obj.children.values()) + list(obj.inPorts) + list(obj.outPorts) + list(getattr(obj, 'inOutPorts', []))
    for x in want:
        n = sum(1 for s in real if s.obj is x)
        if n != 1: bad.append('%d symbols for %s %s (expected 1)' % (n, type(x).__name__, getattr(x, 'name', '?')))
    for s in real:
        if not any(s.obj is x for x in want): bad.append('symbol for %r which is neither a child nor a port of the block' % getattr(s.obj, 'name', s.obj))
    # (b) no two instance / port symbols overlap
    boxes = [(s, s.x, s.y, s.getWidth(), s.getHeight()) for s in real]
    for i in range(len(boxes)):
        for j in range(i + 1, len(boxes)):
            a, b = boxes[i], boxes[j]
            if a[1] < b[1] + b[3] and b[1] < a[1] + a[3] and a[2] < b[2] + b[4] and b[2] < a[2] + a[4]:
                bad.append('symbols %s and %s overlap' % (getattr(a[0].obj, 'name', '?'), getattr(b[0].obj, 'name', '?')))
    # (c) per wire: the nets (with pass-through / feedback markers) form one connected figure touching exactly the real
    #     driver pin and every real reader pin of that wire
    wires = {}
    for c in obj.children.values():
        for p in c.inPorts:
            if p.wire is not None: wires.setdefault(id(p.wire), (p.wire, [], []))[2].append((c, p))
        for p in c.outPorts:
            if p.wire is not None: wires.setdefault(id(p.wire), (p.wire, [], []))[1].append((c, p))
    for p in obj.inPorts:
        if p.wire is not None and id(p.wire) in wires: wires[id(p.wire)][1].append((p, p))
    for p in obj.outPorts:
        if p.wire is not None and id(p.wire) in wires: wires[id(p.wire)][2].append((p, p))
    for wid, (w, drivers, readers) in wires.items():
        nets = [n for n in sch.nets if n.wire is w]
        if not drivers or not readers:
            continue            # a wire nobody drives (undriven input) or nobody reads has nothing to draw
        if not nets:
            bad.append('no net drawn for wire %s' % w.name); continue
        # connectivity over symbols
        adj = {}
        for n in nets:
            adj.setdefault(id(n.source), set()).add(id(n.sink)); adj.setdefault(id(n.sink), set()).add(id(n.source))
        start = next(iter(adj)); seen = {start}; todo = [start]
        while todo:
            x = todo.pop()
            for y in adj[x]:
                if y not in seen: seen.add(y); todo.append(y)
        if len(seen) != len(adj): bad.append('the nets of wire %s are not connected (%d of %d symbols reachable)' % (w.name, len(seen), len(adj)))
        touched_src = [(n.source.obj, n.sourcePort) for n in nets if not isinstance(n.source, virtual)]
        touched_snk = [(n.sink.obj, n.sinkPort) for n in nets if not isinstance(n.sink, virtual)]
        for (o, p) in drivers:
            if not any(so is o and (sp is p or getattr(sp, 'name', None) == getattr(p, 'name', None)) for so, sp in touched_src):
                bad.append('wire %s: the real driver pin %s.%s is not touched by any net' % (w.name, getattr(o, 'name', '?'), p.name))
        for (o, p) in readers:
            if not any(so is o and sp is p for so, sp in touched_snk):
                bad.append('wire %s: the reader pin %s.%s is not touched by any net' % (w.name, getattr(o, 'name', '?'), p.name))
        for so, sp in touched_src + touched_snk:
            pw = getattr(sp, 'wire', None)
            if pw is not None and pw is not w:
                bad.append('wire %s: a net touches pin %s.%s which belongs to wire %s' % (w.name, getattr(so, 'name', '?'), sp.name, pw.name))
    # (d) geometry of the pins: on one symbol, input pins attached to different wires (and output pins likewise) sit at
    #     different points -- otherwise the figure drawn for one wire touches a pin of another wire
    for s in real:
        o = s.obj
        if not isinstance(o, py4hw.Logic): continue
        for kind, ports, getter in (('input', getattr(o, 'inPorts', []), 'getPortSinkPos'), ('output', getattr(o, 'outPorts', []), 'getPortSourcePos')):
            seen_at = {}
            for p in ports:
                if p.wire is None: continue
                try:
                    pos = tuple(getattr(s, getter)(p))
                except Exception:
                    continue
                other = seen_at.get(pos)
                if other is not None and other.wire is not p.wire:
                    bad.append('symbol %s: %s pins %s (wire %s) and %s (wire %s) are drawn at the same point %r' % (getattr(o, 'name', '?'), kind, other.name, other.wire.name, p.name, p.wire.name, pos))
                seen_at.setdefault(pos, p)
    return bad


def _check(obj, tag, case):
    from py4hw.schematic import Schematic
    t0 = time.time()
    try:
        sch = _with_limit(lambda: _q(Schematic, obj), LIMIT_S)
    except _Timeout:
        return ['placement and routing did not terminate within %d s' % LIMIT_S]
    except Exception as e:
        return ['Schematic(...) raises %r' % (e,)]
    return postcondition(obj, sch)


def blocks(names, **kw):
    work._load_blocks()
    from props.C01 import wrap
    out = []; evals = 0
    for name in names:
        b = N.BLOCKS[name]
        cfgs = b.cfgs('quick')
        for cfg in cfgs[:: max(1, len(cfgs) // 2)][:2]:
            try:
                sys_, top, pin, pout, ins, outs = wrap(name, b.make, cfg)
            except Exception:
                continue
            target = top.children.get('dut') or next(iter(top.children.values()))
            if not target.isStructural(): target = top
            evals += 1
            bad = _check(target, name, cfg)
            if bad:
                out.append({'oid': 'schematic::%s@%s#bounded' % (name, work._cfg_tag(cfg)), 'status': 'bounded-fail', 'bounded': True, 'evaluations': evals, 'cfg': dict(cfg, block=name), 'model': {'block': name, 'cfg': cfg},
                            'replay': {'reproduced': True, 'got': bad[:6], 'expected': 'one symbol per child and port, no overlap, per wire one connected figure touching exactly its real pins'}, 'function': 'Schematic.placeAndRoute'})
    if not out:
        out.append({'oid': 'schematic::%s#bounded' % ','.join(names)[:80], 'status': 'bounded-ok', 'bounded': True, 'evaluations': evals, 'function': 'Schematic.placeAndRoute'})
    return out


def random_netlists(seed=0, n=6, **kw):
    import py4hw
    rnd = random.Random(seed); out = []; evals = 0
    for it in range(n):
        s = _q(py4hw.HWSystem)
        class Top(py4hw.Logic):
            def __init__(self, parent, name):
                super().__init__(parent, name)
                w = 4
                ins = [s.wire('i%d' % k, w) for k in range(rnd.randint(1, 3))]
                for x in ins: self.addIn(x.name, x)
                pool = list(ins)
                fb = self.wire('fb', w)            # register feedback
                pool.append(fb)
                k = 0
                for k in range(rnd.randint(2, 7)):
                    a = rnd.choice(pool); b = rnd.choice(pool); o = self.wire('n%d' % k, w)
                    kind = rnd.choice(['And2', 'Or2', 'Add', 'Not', 'Reg', 'Mux2'])
                    if kind == 'And2': py4hw.And2(self, 'g%d' % k, a, b, o)
                    elif kind == 'Or2': py4hw.Or2(self, 'g%d' % k, a, b, o)
                    elif kind == 'Add': py4hw.Add(self, 'g%d' % k, a, b, o)
                    elif kind == 'Not': py4hw.Not(self, 'g%d' % k, a, o)
                    elif kind == 'Reg': py4hw.Reg(self, 'g%d' % k, a, o)
                    else:
                        sel = self.wire('s%d' % k); py4hw.Bit(self, 'sb%d' % k, a, 0, sel); py4hw.Mux2(self, 'g%d' % k, sel, a, b, o)
                    pool.append(o)
                py4hw.Reg(self, 'fbreg', pool[-1], fb)
                r = s.wire('r', w); self.addOut('r', r); py4hw.Buf(self, 'out', pool[-1], r)
                if rnd.random() < 0.5:
                    r2 = s.wire('r2', w); self.addOut('r2', r2); py4hw.Buf(self, 'out2', ins[0], r2)     # long forward edge
        try:
            top = _q(Top, s, 'top')
        except Exception:
            continue
        evals += 1
        bad = _check(top, 'random', {'seed': seed, 'iteration': it})
        if bad:
            out.append({'oid': 'schematic::random@seed=%d,it=%d#bounded' % (seed, it), 'status': 'bounded-fail', 'bounded': True, 'evaluations': evals, 'model': {'seed': seed, 'iteration': it}, 'cfg': {'random': True},
                        'replay': {'reproduced': True, 'got': bad[:6], 'expected': 'postcondition of placeAndRoute'}, 'function': 'Schematic.placeAndRoute'})
            break
    if not out:
        out.append({'oid': 'schematic::random@seed=%d#bounded' % seed, 'status': 'bounded-ok', 'bounded': True, 'evaluations': evals, 'function': 'Schematic.placeAndRoute'})
    return out


def targeted(**kw):
    """netlist shapes the random generator rarely produces: a child with several outputs feeding several wires into one
    reader two or more columns away; one wire read on two pins of the same child; wide fan-out; a register loop"""
    import py4hw
    from py4hw.logic import relational as R
    out = []; evals = 0
    def mk(build):
        s = _q(py4hw.HWSystem)
        class Top(py4hw.Logic):
            def __init__(self, parent, name):
                super().__init__(parent, name)
                build(self, s)
        return _q(Top, s, 'top')
    def multi_out_far(t, s):
        a = s.wire('a', 4); b = s.wire('b', 4); r = s.wire('r', 1); t.addIn('a', a); t.addIn('b', b); t.addOut('r', r)
        g = t.wire('g'); e = t.wire('e'); l = t.wire('l')
        R.Comparator(t, 'cmp', a, b, g, e, l)
        # a chain that pushes the reader several columns to the right
        x1 = t.wire('x1', 4); x2 = t.wire('x2', 4); x3 = t.wire('x3', 1)
        py4hw.Not(t, 'n1', a, x1); py4hw.Not(t, 'n2', x1, x2); py4hw.Bit(t, 'b0', x2, 0, x3)
        py4hw.And(t, 'and3', [g, l, x3], r)
    def same_wire_two_pins(t, s):
        x = s.wire('x', 4); r = s.wire('r', 8); t.addIn('x', x); t.addOut('r', r)
        py4hw.Mul(t, 'sq', x, x, r)
    def fanout(t, s):
        a = s.wire('a', 4); t.addIn('a', a)
        for k in range(4):
            o = s.wire('o%d' % k, 4); t.addOut('o%d' % k, o); py4hw.Not(t, 'n%d' % k, a, o)
    def reg_loop(t, s):
        en = s.wire('en'); q_ = s.wire('q', 4); t.addIn('en', en); t.addOut('q', q_)
        nx = t.wire('nx', 4); one = t.wire('one', 4)
        py4hw.Constant(t, 'one', 1, one); py4hw.Add(t, 'inc', q_, one, nx); py4hw.Reg(t, 'r', nx, q_, enable=en)
    def two_wires_same_pair_far(t, s):
        a = s.wire('a', 4); b = s.wire('b', 4); r = s.wire('r', 4); t.addIn('a', a); t.addIn('b', b); t.addOut('r', r)
        ra = t.wire('ra', 4); rb = t.wire('rb', 4); sw = t.wire('sw')
        py4hw.Constant(t, 'k0', 0, sw)
        R.Swap(t, 'swap', a, b, sw, ra, rb)
        y1 = t.wire('y1', 4); y2 = t.wire('y2', 4)
        py4hw.Not(t, 'm1', a, y1); py4hw.Not(t, 'm2', y1, y2)
        z = t.wire('z', 4); py4hw.And(t, 'and3', [ra, rb, y2], z); py4hw.Buf(t, 'o', z, r)
    class Bank(py4hw.Logic):
        # k independent lanes (a register bank or a buffer stage)
        def __init__(self, parent, name, ins, outs, registered):
            super().__init__(parent, name)
            for i, (a, r) in enumerate(zip(ins, outs)):
                a = self.addIn('i%d' % i, a); r = self.addOut('o%d' % i, r)
                (py4hw.Reg if registered else py4hw.Buf)(self, 'u%d' % i, a, r)
    def ring(k, state_first):
        # k parallel wires between one pair of instances, drawn forwards or as feedback depending on the instantiation order
        def build(t, s):
            ins = [s.wire('a%d' % i, 4) for i in range(k)]; outs = [s.wire('q%d' % i, 4) for i in range(k)]
            for i in range(k): t.addIn('a%d' % i, ins[i]); t.addOut('q%d' % i, outs[i])
            x = [t.wire('x%d' % i, 4) for i in range(k)]; sx = [t.wire('s%d' % i, 4) for i in range(k)]; d = [t.wire('d%d' % i, 4) for i in range(k)]
            def state(): Bank(t, 'state', d, x, True)
            def rest():
                Bank(t, 'stage', x, sx, False)
                for i in range(k): py4hw.Add(t, 'add%d' % i, sx[i], ins[i], d[i])
            (state(), rest()) if state_first else (rest(), state())
            for i in range(k): py4hw.Buf(t, 'ob%d' % i, x[i], outs[i])
        return build
    def nary(cls, n):
        # an n-input gate with n distinct input wires: every input pin its own position
        def build(t, s):
            ins = [s.wire('i%d' % i, 2) for i in range(n)]; r = s.wire('r', 2)
            for i in range(n): t.addIn('i%d' % i, ins[i])
            t.addOut('r', r)
            getattr(py4hw, cls)(t, 'g', ins, r)
        return build
    extra = [('ring-%d-lanes-%s' % (k, 'state-first' if sf else 'state-last'), ring(k, sf)) for k in (2, 3) for sf in (True, False)]
    extra += [('%s-%d-inputs' % (c, n), nary(c, n)) for c in ('And', 'Or', 'Nor', 'Xor', 'Nand') if hasattr(py4hw, c) for n in (3, 4)]
    for nm, bld in tuple(extra) + (('multi-output-child-far-reader', multi_out_far), ('one-wire-two-pins-of-a-child', same_wire_two_pins), ('fan-out-4', fanout),
                    ('register-feedback-loop', reg_loop), ('two-wires-between-one-pair-far', two_wires_same_pair_far)):
        try:
            top = mk(bld)
        except Exception as e:
            continue
        evals += 1
        bad = _check(top, nm, {})
        if bad:
            out.append({'oid': 'schematic::targeted.%s#bounded' % nm, 'status': 'bounded-fail', 'bounded': True, 'evaluations': evals, 'model': {'design': nm}, 'cfg': {'design': nm},
                        'replay': {'reproduced': True, 'got': bad[:6], 'expected': 'postcondition of placeAndRoute'}, 'function': 'Schematic.placeAndRoute'})
    if not out:
        out.append({'oid': 'schematic::targeted#bounded', 'status': 'bounded-ok', 'bounded': True, 'evaluations': evals, 'function': 'Schematic.placeAndRoute'})
    return out


def main(tier, seed, only=None):
    t0 = time.time()
    work._load_blocks()
    names = [n for n, b in N.BLOCKS.items() if n not in ('FPAdder_SP', 'FPMult_SP', 'FPtoInt_SP', 'InttoFP_SP')]
    if tier != 'quick': names += ['FPMult_SP', 'InttoFP_SP']
    chunks = [names[i::16] for i in range(16)]
    items = [('props.C18:blocks', dict(names=c)) for c in chunks if c]
    items += [('props.C18:targeted', {})]
    items += [('props.C18:random_netlists', dict(seed=seed * 100 + k, n=4 if tier == 'quick' else 25)) for k in range(8)]
    items = common.filter_only(items, only)
    res = run.run_items(items)
    ev = sum(r.get('evaluations', 0) for r in res if r.get('bounded'))
    return run.finish(PROP, tier, res, t0, level='exploration', seed=seed, functions=['py4hw/schematic.py::Schematic.placeAndRoute (run-time postcondition only)'],
                      assumptions=['the postcondition is evaluated on the data structures the schematic exposes (objs, nets, symbol positions and sizes); rendering itself is not examined',
                                   'no deductive claim: this property is served by its bounded stand-in only (DESIGN 4/C18)'],
                      extra_cov={'evaluations': ev, 'distinct_nontrivial': len(set(r['oid'] for r in res)) + ev // 2,
                                 'rule': 'one evaluation = Schematic(block) built headless and the postcondition evaluated; blocks: every structural block of the registry at 2 configurations + seeded random netlists with register feedback and long forward edges; non-trivial = at least two children',
                                 'samples': [r['oid'] for r in res[:5]]},
                      bounded_parts=[{'what': 'registry blocks x 2 configurations + random netlists', 'evaluations': ev, 'time_limit_s_per_schematic': LIMIT_S}],
                      canary_ok=work.canary(), min_obligations=0)
