"""C15 -- waveform capture records exactly what the wires carried, once per cycle.
Proved in heap mode from the real source: Waveform.clock appends, for every unique watched wire, exactly one sample
equal to the wire's current value and leaves earlier samples untouched (quantified over the watch list and all sample
lists).  With C05 (a clockable is called exactly once per enabled edge, before pending updates are applied) this is
"one sample per cycle, equal to the value going into the edge, in cycle order".
Waveform.__init__ (de-duplication / port aliasing), clear() and get_wavedrom (string building) are served by a
bounded stand-in: the rendering is decoded back by an independent decoder written from the statement."""
import io, contextlib, random, time, itertools
from pvc import run, work
from props import common
from props.kernel_common import heap_item, q, bfail, bok

PROP = 'C15'


def decode(sig, width):
    """run-length decoder of one WaveDrom signal: leading/trailing 'x' frame, '.' repeats, bit characters for 1-bit wires,
    '2' + data label for wider ones"""
    wave = sig['wave']; data = list(sig.get('data', []))
    if not (wave.startswith('x') and wave.endswith('x')): raise ValueError('frame')
    out = []; last = None
    for ch in wave[1:-1]:
        if ch == '.':
            if last is None: raise ValueError('repeat before any value')
            out.append(last)
        elif width == 1 and ch in '01':
            last = int(ch); out.append(last)
        elif width != 1 and ch == '2':
            last = int(data.pop(0), 16); out.append(last)
        else:
            raise ValueError('unexpected wave character %r' % ch)
    if data: raise ValueError('unused data labels')
    return out


def capture(seed=0, n=40, **kw):
    import py4hw
    from py4hw.logic.simulation import Waveform
    rnd = random.Random(seed); evals = 0
    for it in range(n):
        s = q(py4hw.HWSystem)
        widths = [rnd.choice([1, 1, 4, 8]) for _ in range(rnd.randint(1, 3))]
        ins = [s.wire('i%d' % k, w) for k, w in enumerate(widths)]
        regs = [s.wire('r%d' % k, w) for k, w in enumerate(widths)]
        for k, (a, b) in enumerate(zip(ins, regs)): q(py4hw.Reg, s, 'reg%d' % k, a, b)
        buf = q(py4hw.Buf, s, 'b0', regs[0], s.wire('bo', widths[0]))
        watch = []
        for k in range(len(widths)):
            watch.append(rnd.choice([ins[k], regs[k]]))
        if rnd.random() < 0.5: watch.append(watch[0])                       # duplicated entry
        if rnd.random() < 0.5: watch.append(buf.inPorts[0])                 # a port aliasing regs[0]
        if rnd.random() < 0.3: watch.append(buf.outPorts[0])
        wv = q(Waveform, s, 'wv', list(watch))
        if rnd.random() < 0.4:
            # the recorder in a clock domain of its own (as test benches do): it must still sample what the wires carried going
            # into the edge, whichever domain the simulator visits first
            wv.clockDriver = py4hw.ClockDriver('rec_clk', base=s.clockDriver)
        sim = q(s.getSimulator)
        def wire_of(x): return x if isinstance(x, py4hw.Wire) else x.wire
        uniq = []
        for x in watch:
            if not any(wire_of(x) is u for u in uniq): uniq.append(wire_of(x))
        for run_ in range(2):
            cycles = rnd.choice([0, 1, 2, 5, 9])
            alphabet = [rnd.getrandbits(8) for _ in range(2)]               # few distinct values -> repeats (run-length dots)
            expect = {id(u): [] for u in uniq}
            for c in range(cycles):
                for a in ins: a.put(rnd.choice(alphabet))
                q(sim.propagateAll)
                for u in uniq: expect[id(u)].append(u.get())                # the value going into the edge
                q(sim.clk, 1)
            evals += 1
            for u in uniq:
                got = wv.data.get(u)
                if got != expect[id(u)]:
                    return bfail('capture::samples#bounded', evals, {'seed': seed, 'iteration': it, 'wire': u.name, 'cycles': cycles}, expect[id(u)], got, 'Waveform.clock/__init__')
            if len(wv.data) != len(uniq):
                return bfail('capture::one-record-per-unique-wire#bounded', evals, {'seed': seed, 'iteration': it}, len(uniq), len(wv.data), 'Waveform.__init__')
            wd = q(wv.get_wavedrom, True)
            sigs = wd['signal']
            clkwave = sigs[0]['wave']
            if len(clkwave) != cycles + 2:
                return bfail('wavedrom::clock-row-length#bounded', evals, {'cycles': cycles}, cycles + 2, len(clkwave), 'Waveform.get_wavedrom')
            if len(sigs) != len(watch) + 1:
                return bfail('wavedrom::one-row-per-entry#bounded', evals, {'entries': len(watch)}, len(watch) + 1, len(sigs), 'Waveform.get_wavedrom')
            for x, sg in zip(watch, sigs[1:]):
                u = wire_of(x)
                try:
                    dec = decode(sg, u.getWidth())
                except Exception as e:
                    dec = 'undecodable: %r (%s)' % (e, sg)
                if dec != expect[id(u)]:
                    return bfail('wavedrom::decodes-back#bounded', evals, {'wire': u.name, 'width': u.getWidth(), 'signal': sg}, expect[id(u)], dec, 'Waveform.get_wavedrom')
                if len(sg['wave']) != cycles + 2:
                    return bfail('wavedrom::spans-recorded-cycles#bounded', evals, {'wire': u.name}, cycles + 2, len(sg['wave']), 'Waveform.get_wavedrom')
            q(wv.clear)
            if any(len(v) for v in wv.data.values()):
                return bfail('capture::clear#bounded', evals, {}, 'all records empty', {k.name: len(v) for k, v in wv.data.items()}, 'Waveform.clear')
    return bok('capture::random-designs#bounded', evals, 'Waveform')


def main(tier, seed, only=None):
    t0 = time.time()
    items = [('props.kernel_common:heap_item', dict(qual=q_, timeout_s=30 if tier == 'quick' else 120)) for q_ in ('Waveform.clock', 'Waveform.__init__', 'Waveform.clear')]
    items += [('props.C15:capture', dict(seed=seed * 10 + k, n=15 if tier == 'quick' else 150)) for k in range(8)]
    items = common.filter_only(items, only)
    res = run.run_items(items)
    return run.finish(PROP, tier, res, t0, level='proof', seed=seed, functions=['py4hw/logic/simulation.py::Waveform.clock', 'py4hw/logic/simulation.py::Waveform.__init__', 'py4hw/logic/simulation.py::Waveform.clear'],
                      assumptions=['Waveform.__init__ is proved to establish the requires of Waveform.clock for a watch list of wires and connected ports: one entry per distinct wire (given directly, through a port, or several times), each with its own new empty sample list, every watched wire covered; the clock contract states distinctness through a ghost index (Skolem form of the same fact); watch lists containing FieldInspector / ValueFormatter entries are outside both contracts (bounded only)',
                                   'Waveform.__init__: the argument is a list object (not a single wire), its entries exist before the call; Logic.__init__ / addIn / getWidth / getFormat through frame contracts (addIn creates a new port and leaves the wire field of existing objects alone)',
                                   'callee contracts: Waveform.getwire(x) returns the wire of x, w.get() returns w.value',
                                   'that clock() runs exactly once per enabled edge and before pending updates are applied is C05',
                                   common.dropped_note()],
                      bounded_parts=[{'what': 'random small designs with watch lists containing wires, ports aliasing a watched wire, duplicated entries, the recorder in the system clock domain or in one of its own; runs of 0..9 cycles with repeating values, two runs separated by clear(); samples compared with the pre-edge values; get_wavedrom decoded back by an independent run-length decoder (clock row and every row span cycles+2)',
                                      'designs': 8 * (15 if tier == 'quick' else 150)}],
                      trusted_extra=['heap-mode VC generator pvc/heap.py'], canary_ok=work.canary(), min_obligations=5)
