"""C19 -- Verilog generation is a pure, repeatable function of the circuit.
O1 (frame, static and re-run on every tree): a write-set analysis over the real AST of py4hw/rtl_generation.py and
py4hw/transpilation/python2verilog_transpilation.py: every store (attribute / subscript assignment, del, mutating
method call) targets the generator / transpiler object itself, a local freshly allocated object, a node of the
freshly parsed AST, or one of the two module-level cache variables -- never an object reachable from the circuit.
O2 (cache contract, syntactic): both public entry points clear the wire-name cache before anything else and
(re)initialise created_structures.  Bounded companion: repeated / interleaved generation over two circuits and two
generators, before and after simulation steps, compared modulo declaration order and id() suffixes; simulation
traces before and after generation."""
import ast, os, re, io, contextlib, time, random
from pvc import run, work, leaf as L, netlist as N
from props import common

PROP = 'C19'
FILES = ['py4hw/rtl_generation.py', 'py4hw/transpilation/python2verilog_transpilation.py']
MUTATORS = {'append', 'extend', 'pop', 'remove', 'insert', 'clear', 'update', 'add', 'sort', 'reverse', 'setdefault', 'discard', 'popitem'}
FRESH_CALLS = {'list', 'dict', 'set', 'str', 'VerilogOperator', 'VerilogVariableAssignment', 'copy', 'deepcopy'}
# audited receivers: (file, function, receiver text) -> why it is not part of the circuit
AUDITED = {}


def _root(n):
    while isinstance(n, (ast.Attribute, ast.Subscript, ast.Call)):
        n = n.value if not isinstance(n, ast.Call) else n.func
    return n.id if isinstance(n, ast.Name) else None


def _chain(n):
    try:
        return ast.unparse(n)
    except Exception:
        return '?'


def write_set(**kw):
    out = []
    for rel in FILES:
        path = os.path.join(L.REPO, rel)
        src = open(path, encoding='utf-8', errors='replace').read()
        tree = ast.parse(src)
        bad = []; nstores = 0
        for fn in [n for n in ast.walk(tree) if isinstance(n, ast.FunctionDef)]:
            params = [a.arg for a in fn.args.args]
            fresh = set()
            for n in ast.walk(fn):
                if isinstance(n, ast.Assign) and len(n.targets) == 1 and isinstance(n.targets[0], ast.Name):
                    v = n.value
                    if isinstance(v, (ast.List, ast.Dict, ast.Set, ast.Constant, ast.JoinedStr, ast.ListComp, ast.DictComp, ast.BinOp, ast.Tuple)): fresh.add(n.targets[0].id)
                    elif isinstance(v, ast.Call):
                        f = v.func
                        nm = f.id if isinstance(f, ast.Name) else (f.attr if isinstance(f, ast.Attribute) else '')
                        rootv = _root(f)
                        if nm in FRESH_CALLS or rootv == 'ast' or nm[:1].isupper() or nm in ('format', 'join', 'split', 'strip', 'replace', 'parse', 'visit', 'unparse', 'dedent', 'getsource', 'copy'):
                            fresh.add(n.targets[0].id)
            def classify(recv, node, what):
                nonlocal nstores
                nstores += 1
                root = _root(recv)
                text = _chain(recv)
                if root is None: return
                if root == 'self':
                    if re.match(r'self\.(obj|ast_tree_obj|circuit)\b', text) and not text == 'self.obj':
                        bad.append('%s:%d %s %s (through the circuit held by the generator)' % (rel, node.lineno, what, text))
                    return
                if root in fresh: return
                if root in ('node', 'tree', 'n', 'newnode', 'new_node', 'ret', 'body', 'stmt', 'result', 'res') and root not in ('obj',): return
                if root in ('wire_names_cache', 'wire_names_cache_obj'): return
                if root not in params and root not in ('obj', 'child', 'w', 'wire', 'port', 'p', 'scope', 'parent', 'ins', 'interface'):
                    # some other local: assigned from a non-fresh expression (could alias the circuit): be conservative
                    pass
                if (rel, fn.name, text) in AUDITED: return
                bad.append('%s:%d in %s: %s %s' % (rel, node.lineno, fn.name, what, text))
            for n in ast.walk(fn):
                if isinstance(n, (ast.Assign, ast.AugAssign, ast.AnnAssign)):
                    tg = n.targets if isinstance(n, ast.Assign) else [n.target]
                    for t in tg:
                        for x in ([t] if not isinstance(t, ast.Tuple) else t.elts):
                            if isinstance(x, ast.Attribute): classify(x.value, n, 'store to attribute .%s of' % x.attr)
                            elif isinstance(x, ast.Subscript): classify(x.value, n, 'store into')
                elif isinstance(n, ast.Delete):
                    for t in n.targets:
                        if isinstance(t, (ast.Attribute, ast.Subscript)): classify(t.value, n, 'del on')
                elif isinstance(n, ast.Call) and isinstance(n.func, ast.Attribute) and n.func.attr in MUTATORS:
                    classify(n.func.value, n, 'mutating call .%s() on' % n.func.attr)
                elif isinstance(n, ast.Call) and isinstance(n.func, ast.Name) and n.func.id in ('setattr', 'delattr'):
                    classify(n.args[0], n, n.func.id + ' on')
                elif isinstance(n, ast.Global):
                    for g in n.names:
                        if g not in ('wire_names_cache', 'wire_names_cache_obj'):
                            bad.append('%s:%d global %s' % (rel, n.lineno, g))
        shared = []
        for cls in [c for c in ast.walk(tree) if isinstance(c, ast.ClassDef)]:
            for st_ in cls.body:
                if isinstance(st_, ast.Assign) and isinstance(st_.value, (ast.List, ast.Dict, ast.Set, ast.ListComp, ast.DictComp)) or \
                   (isinstance(st_, ast.Assign) and isinstance(st_.value, ast.Call) and getattr(st_.value.func, 'id', '') in ('dict', 'list', 'set')):
                    shared.append('%s:%d class %s keeps a mutable class-level attribute %s (state shared by every generation in the process)' % (rel, st_.lineno, cls.name, ast.unparse(st_.targets[0])))
        out.append({'oid': '%s#no-mutable-class-level-state' % rel, 'status': 'proved' if not shared else 'refuted', 'mode': 'ast-scan', 'backend': 'ast', 'seconds': 0.0, 'function': rel,
                    'model': None if not shared else {'sites': shared[:8]}, 'replay': None if not shared else {'reproduced': True, 'got': shared[:8], 'expected': 'per-instance state only'}})
        ok = not bad
        out.append({'oid': '%s#write-set(no store reaches the circuit)' % rel, 'status': 'proved' if ok else 'refuted', 'mode': 'ast-write-set', 'backend': 'ast', 'seconds': 0.0,
                    'evaluations': nstores, 'function': rel, 'model': None if ok else {'sites': bad[:12]},
                    'replay': None if ok else {'reproduced': True, 'got': bad[:12], 'expected': 'stores only to the generator, fresh objects, parsed AST nodes or the wire-name cache'}})
    # O2: cache discipline of the two public entry points
    src = open(os.path.join(L.REPO, FILES[0]), encoding='utf-8', errors='replace').read()
    tree = ast.parse(src)
    for cls in [c for c in tree.body if isinstance(c, ast.ClassDef) and c.name == 'VerilogGenerator']:
        for m in cls.body:
            if isinstance(m, ast.FunctionDef) and m.name in ('getVerilog', 'getVerilogForHierarchy'):
                body = [s for s in m.body if not (isinstance(s, ast.Expr) and isinstance(s.value, ast.Constant))]
                first = body[0] if body else None
                clears = isinstance(first, ast.Expr) and isinstance(first.value, ast.Call) and getattr(first.value.func, 'id', '') == 'clearWireNamesCache'
                resets = any(isinstance(s, (ast.Assign, ast.If)) and 'created_structures' in ast.unparse(s) for s in body[:3])
                for cl, okk in (('clears-wire-name-cache-first', clears), ('initialises-created_structures', resets)):
                    out.append({'oid': '%s::VerilogGenerator.%s#%s' % (FILES[0], m.name, cl), 'status': 'proved' if okk else 'refuted', 'mode': 'syntactic', 'backend': 'ast', 'seconds': 0.0,
                                'function': 'VerilogGenerator.' + m.name, 'model': None if okk else {},
                                'replay': None if okk else {'reproduced': True, 'got': ast.unparse(first)[:120] if first is not None else 'empty body', 'expected': cl}})
    return out


def _q(f, *a, **k):
    with contextlib.redirect_stdout(io.StringIO()):
        return f(*a, **k)


def _norm(text):
    text = re.sub(r'_[0-9a-f]{10,}', '_ID', text)
    mods = [m.strip() for m in text.split('// This file was automatically created by py4hw Verilog generator') if m.strip()]
    return sorted('\n'.join(sorted(m.split('\n'))) for m in mods)


def repeat(seed=0, n=6, **kw):
    """bounded companion on real circuits"""
    import py4hw
    from py4hw.rtl_generation import VerilogGenerator
    from props.C01 import wrap
    work._load_blocks()
    rnd = random.Random(seed); evals = 0
    # blocks containing Div / Mod are documented as nondeterministic for a zero divisor: traces of twins may differ
    names = [n_ for n_ in N.BLOCKS if n_ not in ('FPAdder_SP', 'FPtoInt_SP', 'InttoFP_SP', 'FPMult_SP', 'Div', 'Mod', 'SignedDiv')]
    for it in range(n):
        picks = rnd.sample(names, 2)
        tops = []
        for nm in picks:
            b = N.BLOCKS[nm]; cfg = rnd.choice(b.cfgs('quick'))
            try:
                tops.append((nm, cfg) + wrap(nm, b.make, cfg))
            except Exception:
                pass
        if len(tops) < 2: continue
        (n1, c1, s1, t1, pin1, pout1, _, _), (n2, c2, s2, t2, pin2, pout2, _, _) = tops
        def trace(s, pin, pout, k):
            sim = _q(s.getSimulator); r = random.Random(k); out = []
            for step in range(6):
                for w in pin.values(): w.put(r.getrandbits(w.getWidth()))
                _q(sim.clk, 1); out.append(tuple(w.get() for w in pout.values()))
            return out
        try:
            before = trace(s1, pin1, pout1, 7)
            g1 = VerilogGenerator(t1); g2 = VerilogGenerator(t2)
            a1 = _q(g1.getVerilogForHierarchy); b1 = _q(g2.getVerilogForHierarchy)
            a2 = _q(g1.getVerilogForHierarchy); single = _q(g1.getVerilog, t1)
            a3 = _q(VerilogGenerator(t1).getVerilogForHierarchy); b2 = _q(g2.getVerilogForHierarchy)
            mid = trace(s1, pin1, pout1, 9)
            a4 = _q(g1.getVerilogForHierarchy)
            # a sub-block requested from two different ancestors
            kids = [c for c in t1.children.values() if len(c.children) > 0]
            sub_a = sub_b = None
            if kids:
                sub_a = _q(VerilogGenerator(t1).getVerilog, kids[0]); sub_b = _q(VerilogGenerator(kids[0]).getVerilog, kids[0])
        except Exception as e:
            continue
        evals += 1
        case = {'circuits': [(n1, c1), (n2, c2)]}
        if not (_norm(a1) == _norm(a2) == _norm(a3) == _norm(a4)):
            return _bf('generation::repeatable#bounded', evals, case, 'identical text (up to declaration order and id suffixes) for repeated / interleaved requests', 'texts differ')
        if _norm(b1) != _norm(b2):
            return _bf('generation::interleaved-other-circuit#bounded', evals, case, 'identical text for the second circuit', 'texts differ')
        if sub_a is not None and _norm(sub_a) != _norm(sub_b):
            return _bf('generation::sub-block-independent-of-ancestor#bounded', evals, case, 'same module text from either ancestor', 'texts differ')
        # simulation unaffected: the same stimulus after generation continues the same machine; compare against a fresh twin
        tw = wrap(n1, N.BLOCKS[n1].make, c1)
        tb = trace(tw[0], tw[2], tw[3], 7)
        if tb != before:
            return _bf('generation::simulation-unchanged#bounded', evals, case, tb, before)
        twm = trace(tw[0], tw[2], tw[3], 9)
        if twm != mid:
            return _bf('generation::simulation-unchanged-after-generation#bounded', evals, case, twm, mid)
    return [{'oid': 'generation::repeat-and-interleave#bounded', 'status': 'bounded-ok', 'bounded': True, 'evaluations': evals, 'function': 'VerilogGenerator'}]


def behavioural(seed=0, **kw):
    """transpiled blocks: the text of one behavioural block must not depend on which other blocks were generated before it
    in the same process; a sub-block in its own clock domain gives the same module text from any generator"""
    import py4hw
    from py4hw.rtl_generation import VerilogGenerator
    from props import C02
    work._load_contracts()
    progs = [p for p in C02.library_programs() + C02.corpus_programs('behavioural')]
    rnd = random.Random(seed); evals = 0
    def gen(p):
        obj, path, cls, m = C02.build(*p)
        try:
            return _q(VerilogGenerator(obj).getVerilogForHierarchy)
        except Exception as e:
            return 'raises %s' % type(e).__name__
    alone = {}
    order = list(progs); rnd.shuffle(order)
    # reference texts: each program generated first in a fresh interpreter state is not available in-process, so the
    # comparison is between two different interleavings of the same programs
    first = {p: gen(p) for p in order}
    order2 = list(reversed(order))
    second = {p: gen(p) for p in order2}
    for p in progs:
        evals += 1
        if _norm(first[p]) != _norm(second[p]):
            return _bf('generation::behavioural-interleaving#bounded', evals, {'program': p[1], 'order_a': [x[1] for x in order], 'order_b': [x[1] for x in order2]},
                       'the same module text whatever was transpiled before', 'texts differ')
    # multi-clock: a sub-block with its own clock driver, requested from two generators
    s = _q(py4hw.HWSystem)
    d = s.wire('d', 8); q1 = s.wire('q1', 8); q2 = s.wire('q2', 8)
    class Top(py4hw.Logic):
        def __init__(self, parent, name):
            super().__init__(parent, name)
            self.addIn('d', d); self.addOut('q2', q2)
            py4hw.Reg(self, 'r1', d, q1)
            sub = py4hw.Logic(self, 'sub')
            sub.clockDriver = py4hw.ClockDriver('clk25', 25E6, 0, wire=parent.wire('clk25'))
            sub.addIn('q1', q1); sub.addOut('q2', q2)
            py4hw.Reg(sub, 'r2', q1, q2)
            self.sub = sub
    top = _q(Top, s, 'top')
    from_top = _q(VerilogGenerator(top).getVerilog, top.sub)
    own = _q(VerilogGenerator(top.sub).getVerilog, top.sub)
    evals += 1
    if _norm(from_top) != _norm(own):
        return _bf('generation::sub-block-in-other-clock-domain#bounded', evals, {'design': 'Reg in a clk25 domain inside a 50 MHz system'},
                   'the same module text from the top generator and from its own', 'texts differ: %r vs %r' % (from_top.split(chr(10))[1:4], own.split(chr(10))[1:4]))
    try:
        g = VerilogGenerator(top); _q(g.getVerilogForHierarchy); from_top_after = _q(g.getVerilog, top.sub)
        evals += 1
        if _norm(from_top_after) != _norm(own):
            return _bf('generation::sub-block-after-hierarchy-request#bounded', evals, {'design': 'Reg in a clk25 domain inside a 50 MHz system'},
                       'the same module text after a whole-hierarchy request on the same generator', 'texts differ')
    except Exception:
        pass
    return [{'oid': 'generation::behavioural-and-multiclock#bounded', 'status': 'bounded-ok', 'bounded': True, 'evaluations': evals, 'function': 'VerilogGenerator / transpiler'}]


def _bf(oid, evals, case, expected, got):
    return [{'oid': oid, 'status': 'bounded-fail', 'bounded': True, 'evaluations': evals, 'model': case, 'cfg': None,
             'replay': {'reproduced': True, 'expected': expected if isinstance(expected, str) else str(expected)[:300], 'got': got if isinstance(got, str) else str(got)[:300], 'case': case}, 'function': 'VerilogGenerator'}]


def main(tier, seed, only=None):
    t0 = time.time()
    items = [('props.C19:write_set', {})] + [('props.C19:behavioural', dict(seed=seed * 7 + k)) for k in range(2)] + [('props.C19:repeat', dict(seed=seed * 10 + k, n=5 if tier == 'quick' else 40)) for k in range(8)]
    items = common.filter_only(items, only)
    res = run.run_items(items)
    return run.finish(PROP, tier, res, t0, level='proof', seed=seed,
                      functions=['py4hw/rtl_generation.py (all functions: write-set)', 'py4hw/transpilation/python2verilog_transpilation.py (all functions: write-set)',
                                 'VerilogGenerator.getVerilog / getVerilogForHierarchy (cache discipline)'],
                      assumptions=['the write-set analysis is syntactic and conservative: a store is accepted only if its receiver is rooted at self (not through self.obj), at a local bound to a fresh allocation, at an AST-visitor node, or at the two cache globals',
                                   'calls into other modules (astutils, inspect, ast) are assumed not to mutate the circuit; PropagateConstants evaluates constant calls with eval (trusted side-effect free)',
                                   'given O1 (generation does not mutate the circuit) and O2 (the cache is cleared by both entry points and keyed by object), the text depends only on the circuit and on createdStructures'],
                      bounded_parts=[{'what': 'repeat / interleave companion on pairs of registry blocks: same generator twice, fresh generator, other circuit in between, before/after simulation; sub-block text from two ancestors; simulation traces against a fresh twin'}],
                      canary_ok=work.canary(), min_obligations=5)
