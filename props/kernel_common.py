"""shared pieces of the kernel properties C04 / C05 / C10: heap-mode items and native stand-ins"""
import io, contextlib, random, ast, glob, os, warnings
from pvc import heapverify as HV, leaf as L
warnings.simplefilter('ignore')


def heap_item(qual, timeout_s=20, **kw):
    import contracts.kernel   # noqa
    return HV.verify(HV.HFUNCS[qual], timeout_s)


def q(f, *a, **k):
    with contextlib.redirect_stdout(io.StringIO()):
        return f(*a, **k)


def bfail(oid, evals, case, expected, got, function):
    return [{'oid': oid, 'status': 'bounded-fail', 'bounded': True, 'evaluations': evals, 'model': case, 'cfg': case if isinstance(case, dict) else None,
             'replay': {'reproduced': True, 'expected': expected, 'got': got, 'case': case}, 'function': function}]


def bok(oid, evals, function):
    return [{'oid': oid, 'status': 'bounded-ok', 'bounded': True, 'evaluations': evals, 'function': function}]


def random_dag(rnd, n, width=4, order='random', regs=0, late=False):
    """a random acyclic netlist of n two-input gates (plus optional registers) instantiated in a random order;
    returns (sys, inputs, list of (leaf kind, in wires, out wire), outputs)"""
    import py4hw
    s = q(py4hw.HWSystem)
    nin = 3
    ins = [s.wire('i%d' % k, width) for k in range(nin)]
    wires = list(ins)
    plan = []
    for k in range(n):
        a = rnd.choice(wires); b = rnd.choice(wires)
        o = s.wire('n%d' % k, width)
        kind = rnd.choice(['And2', 'Or2', 'Add', 'Sub', 'Not', 'Buf', 'Swap'])
        if kind == 'Swap':
            # a block with two output ports (each read by later blocks): o and o2
            o2 = s.wire('m%d' % k, width)
            plan.append((kind, a, b, (o, o2))); wires.append(o); wires.append(o2)
        else:
            plan.append((kind, a, b, o)); wires.append(o)
    idx = list(range(n))
    if order == 'random': rnd.shuffle(idx)
    elif order == 'reversed': idx.reverse()
    top = s
    conts = [q(py4hw.Logic, top, 'box%d' % j) for j in range(2)] if late else []     # purely structural containers
    cut = rnd.randrange(0, n + 1) if late else None
    for pos_, k in enumerate(idx):
        if late and pos_ == cut:
            q(top.getSimulator)          # the simulator exists before the remaining blocks are added
        s = rnd.choice([top] + conts) if late else top
        kind, a, b, o = plan[k]
        if kind == 'And2': q(py4hw.And2, s, 'g%d' % k, a, b, o)
        elif kind == 'Or2': q(py4hw.Or2, s, 'g%d' % k, a, b, o)
        elif kind == 'Add': q(py4hw.Add, s, 'g%d' % k, a, b, o)
        elif kind == 'Sub': q(py4hw.Sub, s, 'g%d' % k, a, b, o)
        elif kind == 'Not': q(py4hw.Not, s, 'g%d' % k, a, o)
        elif kind == 'Swap':
            # two single-leaf outputs from one LEAF with two output ports: BitsLSBF-like behaviour via ConcatenateMSBF + two Range
            # (a leaf with several output ports: Mux2 pair would be two leaves; use BitsLSBF on a 2-bit concat when width==1)
            import py4hw.logic.bitwise as B
            if width == 1:
                cat = top.wire('cat%d' % k, 2); q(B.ConcatenateMSBF, s, 'cat%d' % k, [b, a], cat)
                q(B.BitsLSBF, s, 'g%d' % k, cat, [o[0], o[1]])
            else:
                q(py4hw.Buf, s, 'g%da' % k, a, o[0]); q(py4hw.Buf, s, 'g%db' % k, b, o[1])
        else: q(py4hw.Buf, s, 'g%d' % k, a, o)
    return top, ins, plan


def eval_plan(plan, invals, width):
    m = (1 << width) - 1
    val = dict(invals)
    for kind, a, b, o in plan:
        x = val[id(a)]; y = val[id(b)]
        if kind == 'Swap':
            val[id(o[0])] = x; val[id(o[1])] = y; continue
        val[id(o)] = {'And2': x & y, 'Or2': x | y, 'Add': (x + y) & m, 'Sub': (x - y) & m, 'Not': (~x) & m, 'Buf': x}[kind]
    return val


def clock_methods_scan(**kw):
    """static frame obligation for EVERY clock() in the package (inventory rebuilt from the AST on every run):
    a clock() never calls put()/settle()/settleAll() and never stores .value of anything but its own leaf field"""
    repo = L.REPO
    bad = []; n = 0; names = []
    for path in sorted(glob.glob(os.path.join(repo, 'py4hw', '**', '*.py'), recursive=True)):
        try:
            tree = ast.parse(open(path, encoding='utf-8', errors='replace').read())
        except SyntaxError:
            continue
        for cls in [c for c in ast.walk(tree) if isinstance(c, ast.ClassDef)]:
            for m in cls.body:
                if isinstance(m, ast.FunctionDef) and m.name == 'clock':
                    n += 1; names.append('%s::%s.clock' % (os.path.relpath(path, repo), cls.name))
                    for x in ast.walk(m):
                        if isinstance(x, ast.Call) and isinstance(x.func, ast.Attribute) and x.func.attr in ('put', 'settle', 'settleAll'):
                            bad.append('%s:%d %s.clock calls .%s()' % (os.path.relpath(path, repo), x.lineno, cls.name, x.func.attr))
                        if isinstance(x, ast.Attribute) and isinstance(x.ctx, ast.Store) and x.attr == 'value' and not (isinstance(x.value, ast.Name) and x.value.id == 'self'):
                            bad.append('%s:%d %s.clock stores .value of %s' % (os.path.relpath(path, repo), x.lineno, cls.name, ast.unparse(x.value)))
    ok = not bad
    return [{'oid': 'py4hw/**::*.clock#frame(never-stores-a-wire-value)', 'status': 'proved' if ok else 'refuted', 'mode': 'ast-scan', 'backend': 'ast', 'seconds': 0.0,
             'function': 'all %d clock() methods' % n, 'evaluations': n, 'inventory': names,
             'replay': None if ok else {'reproduced': True, 'got': bad[:10], 'expected': 'clock() only prepares'}, 'model': None if ok else {'sites': bad[:10]}}]
