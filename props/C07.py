"""C07 -- integer arithmetic blocks compute their mathematical function for all inputs.
Leaves: VCs from the real propagate() source, parametric in widths (Int mode), fallback width grid (BV).
Structural blocks: netlist built by the real constructor, composed from the leaf *contracts*, block-level
postcondition from the statement discharged for all operand values per width tuple."""
from props import common

PROP = 'C07'


def main(tier, seed, only=None):
    return common.run_layered(PROP, tier, seed, only,
                              funcs=['IntegerHelper.c2_to_signed', 'IntegerHelper.signed_to_c2'],
                              min_obligations=200)
