"""C08 -- logic, selection and comparison blocks implement their truth tables exactly.
Leaves: VCs from the real propagate() source, parametric in widths (Int mode), fallback width grid (BV).
Structural blocks: netlist built by the real constructor, composed from the leaf *contracts*, block-level
postcondition from the statement discharged for all operand values per width tuple."""
from props import common

PROP = 'C08'


def main(tier, seed, only=None):
    return common.run_layered(PROP, tier, seed, only,
                              funcs=[],
                              min_obligations=200)
