"""C12 -- number-format helpers are bit-exact and arithmetically exact.
Proved from the real source (pvc.symexec -> z3, Int mode parametric / BV over declared ranges):
IntegerHelper.signed_to_c2 / c2_to_signed (two's complement round trips for all widths and values), signExtend,
IntegerHelper.sign, FPNum.pack/unpack_ieee754_{hp,sp,dp}_parts and FloatingPointHelper pack/unpack (field formulas and
inverse pairs).  NOT within deductive reach here, served by bounded stand-ins (labelled bounded, never counted as proved):
functions computing on Python floats (fp_to_parts, sp/dp_to_ieee754, ieee754_to_sp/dp, FPNum.to_float,
convert_float_to_semp) -- the encoding has no floating-point semantics -- against struct; and the object-allocating
methods of FPNum (from_ieee754_*, convert, add, sub, mul, compare) and FixedPoint (add, sub, mult) against
fractions.Fraction / exact integers.
Heap-mode contracts (contracts/fpnum.py, object allocation with a ghost `alloc` set): FPNum.add / sub / mul / neg compute the
exact rational sum / difference / product / negation of finite operands and compare returns the order of the denoted
rationals, through the renormalisation steps increase_exponent, increase_precision, set_semp, adjust_semp and the constructor
(arities 0 and 4; arity 2 = from an IEEE-754 half / single / double bit pattern, which denotes (-1)**s * 2**(e-bias) * (1 + m/2**mw),
subnormals 2**(1-bias) * m/2**mw, all-ones exponent infinity / NaN), each under its own contract; operands and every other existing object are left untouched.  The rationals
are abstract in those proofs; the 15 axioms they use are proved as lemmas of real arithmetic (pvc/realsem.py) in every run.  FixedPoint.add / sub: the raw encoding of the (new) result is
the sum / difference of the operands' raw encodings modulo 2**(sw+iw+fw), for symbolic formats; mult stays bounded."""
import io, contextlib, random, struct, math, time
from fractions import Fraction
from pvc import run, work, leaf as L, heapverify as HV
from props import common

PROP = 'C12'
FUNCS = ['IntegerHelper.signed_to_c2', 'IntegerHelper.c2_to_signed', 'IntegerHelper.sign', 'signExtend',
         'FPNum.unpack_ieee754_hp_parts', 'FPNum.pack_ieee754_hp_parts', 'FPNum.unpack_ieee754_sp_parts', 'FPNum.pack_ieee754_sp_parts',
         'FPNum.unpack_ieee754_dp_parts', 'FPNum.pack_ieee754_dp_parts', 'FloatingPointHelper.unpack_ieee754_sp_parts',
         'FloatingPointHelper.unpack_ieee754_dp_parts', 'FloatingPointHelper.pack_ieee754_sp_parts']


HEAP_FUNCS = ['FPNum.increase_exponent', 'FPNum.increase_precision', 'FPNum.set_semp', 'FPNum.adjust_semp', 'FPNum.__init__/4',
              'FPNum.__init__/0', 'FPNum.from_ieee754_hp', 'FPNum.from_ieee754_sp', 'FPNum.from_ieee754_dp',
              'FPNum.__init__/2hp', 'FPNum.__init__/2sp', 'FPNum.__init__/2dp', 'FPNum.copy', 'FPNum.add', 'FPNum.sub', 'FPNum.mul', 'FPNum.neg', 'FPNum.compare',
              'FixedPoint.intToFixedPoint', 'FixedPoint.__init__', 'FixedPoint.add', 'FixedPoint.sub', 'FixedPoint.mult', 'FixedPoint.fromRawValue']


def heap_item(qual, timeout_s=30, **kw):
    import contracts.fpnum   # noqa
    return HV.verify(HV.HFUNCS[qual], timeout_s)


def axiom_item(name, timeout_s=30, **kw):
    from contracts.fpnum import AXIOMS
    from pvc import realsem
    return [realsem.prove_axiom(name, AXIOMS[name], timeout_s)]


def _bf(oid, evals, case, expected, got, fn):
    return [{'oid': oid, 'status': 'bounded-fail', 'bounded': True, 'evaluations': evals, 'model': case, 'cfg': case if isinstance(case, dict) else None,
             'replay': {'reproduced': True, 'expected': expected, 'got': got, 'case': case}, 'function': fn}]


def _bok(oid, evals, fn):
    return [{'oid': oid, 'status': 'bounded-ok', 'bounded': True, 'evaluations': evals, 'function': fn}]


FMT = {'hp': (5, 10, 'e'), 'sp': (8, 23, 'f'), 'dp': (11, 52, 'd')}


def _patterns(fmt, rnd, n_rand):
    ew, mw, _ = FMT[fmt]
    mset = sorted({0, 1, 2, 3, (1 << mw) - 1, (1 << mw) - 2, 1 << (mw - 1), (1 << (mw - 1)) - 1, (1 << (mw - 1)) + 1} | {1 << k for k in range(mw)} | {(1 << k) - 1 for k in range(1, mw)})
    for s in (0, 1):
        for e in range(0, (1 << ew) - 1):          # finite values (NaN payloads excepted, infinities handled separately)
            ms = mset if (fmt != 'dp' or e in (0, 1, 2, 1022, 1023, 1024, 2045, 2046) or e % 97 == 0) else mset[:6]
            for m in ms:
                yield (s << (ew + mw)) | (e << mw) | m
    for _ in range(n_rand):
        yield rnd.getrandbits(1 + ew + mw)


def _value(fmt, v):
    """exact rational denoted by a finite pattern"""
    ew, mw, _ = FMT[fmt]
    s = v >> (ew + mw); e = (v >> mw) & ((1 << ew) - 1); m = v & ((1 << mw) - 1)
    bias = (1 << (ew - 1)) - 1
    if e == 0: x = Fraction(m, 1 << mw) * Fraction(2) ** (1 - bias)
    else: x = (1 + Fraction(m, 1 << mw)) * Fraction(2) ** (e - bias)
    return -x if s else x


def fpnum(fmt='hp', seed=0, scale=1, **kw):
    """FPNum: bit-pattern round trip through from_ieee754_* / convert, exact value, add/sub/mul/compare against Fraction"""
    from py4hw.helper import FPNum
    rnd = random.Random(seed); evals = 0
    ew, mw, _ = FMT[fmt]
    pats = list(range(1 << 16)) if fmt == 'hp' else list(_patterns(fmt, rnd, 300 * scale))
    finite = []
    for v in pats:
        e = (v >> mw) & ((1 << ew) - 1)
        if e == (1 << ew) - 1:
            if v & ((1 << mw) - 1): continue        # NaN payloads excepted
        evals += 1
        try:
            x = FPNum(v, fmt); r = x.convert(fmt)
        except Exception as ex:
            return _bf('FPNum::%s-round-trip#bounded' % fmt, evals, {'pattern': hex(v)}, hex(v), 'raises %r' % (ex,), 'FPNum.from_ieee754_%s/convert' % fmt)
        if r != v:
            return _bf('FPNum::%s-round-trip#bounded' % fmt, evals, {'pattern': hex(v)}, hex(v), hex(r) if isinstance(r, int) else repr(r), 'FPNum.from_ieee754_%s/convert' % fmt)
        if e != (1 << ew) - 1:
            val = Fraction(x.s * x.m, x.p) * Fraction(2) ** x.e if x.p else None
            if val != _value(fmt, v):
                return _bf('FPNum::%s-denotes#bounded' % fmt, evals, {'pattern': hex(v)}, str(_value(fmt, v)), str(val), 'FPNum.from_ieee754_%s' % fmt)
            finite.append(v)
    # arithmetic and order, exact
    sample = finite if len(finite) < 400 * scale else rnd.sample(finite, 400 * scale)
    # signed zeros and the smallest / largest finite magnitudes, every ordered pair
    sign = 1 << (ew + mw); top = (((1 << ew) - 2) << mw) | ((1 << mw) - 1)
    edge = [0, sign, 1, sign | 1, 1 << mw, sign | (1 << mw), top, sign | top]
    pairs = [(a, b) for a in edge for b in edge] + [(sample[i], sample[i + 1]) for i in range(0, len(sample) - 1, 2)]
    for a, b in pairs:
        xa, xb = FPNum(a, fmt), FPNum(b, fmt); va, vb = _value(fmt, a), _value(fmt, b)
        for name, op, want in (('add', lambda: xa.add(xb), va + vb), ('sub', lambda: xa.sub(xb), va - vb), ('mul', lambda: xa.mul(xb), va * vb)):
            evals += 1
            try:
                r = op(); got = Fraction(r.s * r.m, r.p) * Fraction(2) ** r.e
            except Exception as ex:
                got = 'raises %r' % (ex,)
            if got != want:
                return _bf('FPNum::%s#bounded' % name, evals, {'a': hex(a), 'b': hex(b), 'format': fmt}, str(want), str(got), 'FPNum.' + name)
        evals += 1
        c = xa.compare(xb); wc = (va > vb) - (va < vb)
        if c != wc:
            return _bf('FPNum::compare#bounded', evals, {'a': hex(a), 'b': hex(b), 'format': fmt}, wc, c, 'FPNum.compare')
    return _bok('FPNum::%s#bounded' % fmt, evals, 'FPNum (%s)' % fmt)


def floats(fmt='sp', seed=0, scale=1, **kw):
    """float helpers against the platform's IEEE-754 encoding (struct)"""
    from py4hw.helper import FloatingPointHelper as H, FPNum
    rnd = random.Random(seed); evals = 0
    ew, mw, code = FMT[fmt]
    enc = H.sp_to_ieee754 if fmt == 'sp' else H.dp_to_ieee754
    dec = H.ieee754_to_sp if fmt == 'sp' else H.ieee754_to_dp
    icode = 'I' if fmt == 'sp' else 'Q'
    for v in _patterns(fmt, rnd, 500 * scale):
        if ((v >> mw) & ((1 << ew) - 1)) == (1 << ew) - 1 and v & ((1 << mw) - 1): continue     # NaN payloads excepted
        f = struct.unpack(code, struct.pack(icode, v))[0]
        evals += 1
        try:
            got = enc(f)
        except Exception as ex:
            got = 'raises %r' % (ex,)
        if got != v:
            return _bf('float::%s_to_ieee754#bounded' % fmt, evals, {'value': repr(f), 'pattern': hex(v)}, hex(v), hex(got) if isinstance(got, int) else got, 'FloatingPointHelper.%s_to_ieee754' % fmt)
        evals += 1
        try:
            back = dec(v)
        except Exception as ex:
            back = 'raises %r' % (ex,)
        if not (isinstance(back, float) and struct.pack(code, back) == struct.pack(code, f)):
            return _bf('float::ieee754_to_%s#bounded' % fmt, evals, {'pattern': hex(v)}, repr(f), repr(back), 'FloatingPointHelper.ieee754_to_%s' % fmt)
        evals += 1
        try:
            tf = FPNum(v, fmt).to_float()
        except Exception as ex:
            tf = 'raises %r' % (ex,)
        if not (isinstance(tf, float) and struct.pack('d', tf) == struct.pack('d', float(f))):
            return _bf('float::FPNum.to_float#bounded', evals, {'pattern': hex(v), 'format': fmt}, repr(float(f)), repr(tf), 'FPNum.to_float')
    for s_ in (0, 1):       # infinities
        v = (s_ << (ew + mw)) | (((1 << ew) - 1) << mw)
        f = struct.unpack(code, struct.pack(icode, v))[0]
        evals += 2
        if enc(f) != v: return _bf('float::%s_to_ieee754(inf)#bounded' % fmt, evals, {'value': repr(f)}, hex(v), hex(enc(f)), 'FloatingPointHelper')
        if dec(v) != f: return _bf('float::ieee754_to_%s(inf)#bounded' % fmt, evals, {'pattern': hex(v)}, repr(f), repr(dec(v)), 'FloatingPointHelper')
    return _bok('float::%s#bounded' % fmt, evals, 'FloatingPointHelper (%s)' % fmt)


def fixedpoint(seed=0, scale=1, **kw):
    """FixedPoint.add / sub / mult on raw encodings: exhaustive for small formats, sampled for larger ones"""
    from py4hw.helper import FixedPoint
    rnd = random.Random(seed); evals = 0
    def sx(v, w): return v - (1 << w) if v >> (w - 1) else v
    for (sw, iw, fw) in [(1, 1, 0), (1, 1, 1), (1, 2, 2), (1, 3, 1), (1, 1, 4), (1, 4, 4), (1, 7, 8), (1, 15, 16)]:
        w = sw + iw + fw
        pairs = [(a, b) for a in range(1 << w) for b in range(1 << w)] if w <= 5 else \
            [(rnd.choice([0, 1, (1 << w) - 1, 1 << (w - 1), (1 << (w - 1)) - 1, rnd.getrandbits(w)]), rnd.choice([0, 1, (1 << w) - 1, 1 << (w - 1), (1 << (w - 1)) - 1, rnd.getrandbits(w)])) for _ in range(600 * scale)]
        for a, b in pairs:
            x = FixedPoint.fromRawValue(sw, iw, fw, a); y = FixedPoint.fromRawValue(sw, iw, fw, b)
            for name, want in (('add', (a + b) % (1 << w)), ('sub', (a - b) % (1 << w)), ('mult', ((sx(a, w) * sx(b, w)) >> fw) % (1 << w))):
                evals += 1
                try:
                    got = getattr(x, name)(y).v
                except Exception as ex:
                    got = 'raises %r' % (ex,)
                if got != want:
                    return _bf('FixedPoint::%s#bounded' % name, evals, {'format': (sw, iw, fw), 'a': a, 'b': b}, want, got, 'FixedPoint.' + name)
    return _bok('FixedPoint::add-sub-mult#bounded', evals, 'FixedPoint')


def main(tier, seed, only=None):
    t0 = time.time()
    work._load_contracts()
    items = common.func_items(FUNCS, tier, seed, timeout_s=30)
    from contracts.fpnum import AXIOMS
    items += [('props.C12:heap_item', dict(qual=q, timeout_s=30 if tier == 'quick' else 120)) for q in HEAP_FUNCS]
    items += [('props.C12:axiom_item', dict(name=a, timeout_s=30)) for a in AXIOMS]
    sc = 1 if tier == 'quick' else 10
    items += [('props.C12:fpnum', dict(fmt=f, seed=seed + 7 * k, scale=sc)) for f in ('hp', 'sp', 'dp') for k in range(1 if (tier == 'quick' or f == 'hp') else 4)]
    items += [('props.C12:floats', dict(fmt=f, seed=seed, scale=sc)) for f in ('sp', 'dp')] + [('props.C12:fixedpoint', dict(seed=seed, scale=sc))]
    items = common.filter_only(items, only)
    res = run.run_items(items)
    return run.finish(PROP, tier, res, t0, level='proof', seed=seed,
                      functions=['py4hw/helper.py::' + f for f in FUNCS + HEAP_FUNCS],
                      assumptions=[common.dropped_note(), 'Python ints are mathematical integers',
                                   'proof level covers the integer helpers, the field packers and the exact arithmetic / order of FPNum (add, sub, mul, neg, compare, constructor, renormalisation); float-valued helpers, FPNum.convert / to_float / div / sqrt / reducePrecision* and the float-to-fixed conversion are the bounded parts below; FixedPoint.mult is proved up to the abstract result of signExtend (itself proved in scalar mode) and an opaque product, and additionally replayed on raw encodings below (struct / Fraction oracles)',
                                   'FPNum contracts: operands are finite well-formed numbers (precision a power of two, mantissa >= 0, sign +-1, not NaN / infinity) -- what the constructors establish; NaN / infinity branches are executed but carry no postcondition; field values are Python ints (isinstance(m, int) taken as true: the model has no floats); termination of the renormalisation loops is not proved (partial correctness)',
                                   'abstract rationals: val / qadd / qsub / qmul / qneg / qcmp are uninterpreted in the heap proofs; the axioms about them (contracts/fpnum.py::AXIOMS) are proved in real arithmetic under val = s * 2**e * m / p in every run (axiom::*), from three trusted schemata for 2**e (recurrence, strict monotonicity, 2**(a+b) = 2**a * 2**b) and positivity',
                                   'a new object is distinct from None, from the reference arguments and from every object that existed before (ghost alloc set); mul: products of two symbolic terms are abstracted to an uninterpreted function with sign / unit / commutativity facts',
                                   'FixedPoint formats with zero integer bits are refused by the constructor itself (negative shift): not a legal format'],
                      bounded_parts=[{'what': 'FPNum from_ieee754 / convert round trip and denoted value: all 65536 half patterns; single / double: every exponent x mantissa boundary set x both signs + 300 random; add / sub / mul / compare on 200 pairs per format + all ordered pairs of 8 edge patterns (signed zeros, smallest subnormals / normals, largest finite) against Fraction'},
                                     {'what': 'FloatingPointHelper sp/dp_to_ieee754, ieee754_to_sp/dp, FPNum.to_float against struct on the same pattern sets (signed zeros, subnormals, infinities included)'},
                                     {'what': 'FixedPoint.add/sub/mult raw encodings: exhaustive for formats up to 5 bits, boundary + random pairs for larger ones'}],
                      canary_ok=work.canary(), min_obligations=200)
