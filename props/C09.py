"""C09 -- storage and sequential blocks follow their reference state machines.
Leaves (Reg.clock, memories, Sequence, AutoReset, Latch): VCs from the real source, parametric where possible.
Structural sequential blocks: real constructor + real Simulator give the netlist and clock domains; one-step
refinement (init / step / output) of the reference machine of the statement under a refinement mapping, for all
states and inputs per configuration -- hence all histories from power-up by induction."""
from props import common

PROP = 'C09'


def main(tier, seed, only=None):
    return common.run_layered(PROP, tier, seed, only, min_obligations=200,
                              assumptions_extra=['history clauses follow from init + one-step obligations by induction on the number of edges (the induction itself is the standard meta-argument, not a VC)',
                                                 'Reg holds reset_value from construction while its q wire reads 0 until the first edge: the reference machine of Reg carries that power-up flag explicitly'])
