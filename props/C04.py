"""C04 -- combinational settling is complete and independent of construction order.
Proved in heap mode from the real source of py4hw/simulation.py:
  * topologicalSort: normal return => for every pair of positions a < b the block at b is not read by ... (no block
    depends on a later one), for ANY initial order of the list (the initial array is universally quantified);
  * propagateAll on such a list => every stateless block's outputs agree with the current values of its inputs
    (fixpoint), using only the abstract leaf contract (a block writes only wires it drives; only readers of those
    wires can be invalidated).
findFirstDependentPosition is proved (three loops, quantified invariants) against the contract the sorter proof uses.  Uniqueness
of the fixpoint on acyclic netlists / rejection of cycles follow from strict sortedness by the two induction
schemata of DESIGN 4/C04 (meta-steps).  Completeness (acyclic => accepted) is not provable (1000-pass guard) and is
bounded."""
import random, time
from pvc import run, work
from props import common
from props.kernel_common import heap_item, q, bfail, bok, random_dag, eval_plan

PROP = 'C04'
FUNCS = ['Simulator.topologicalSort', 'Simulator.propagateAll', 'Simulator.findFirstDependentPosition', 'HWSystem.getSimulator', 'Simulator.__init__']


def settle(seed=0, n=30, **kw):
    """random DAGs x random / reversed instantiation orders: after simulator creation and after clk, every wire holds
    the value an order-independent evaluation gives; findFirstDependentPosition against an independent computation"""
    import py4hw
    rnd = random.Random(seed); evals = 0
    for it in range(n):
        size = rnd.choice([1, 2, 5, 12, 30])
        order = rnd.choice(['random', 'reversed', 'forward'])
        width = rnd.choice([1, 1, 4, 8])
        st = rnd.getstate()
        s, ins, plan = random_dag(rnd, size, width, order)
        cvals = {id(w): rnd.getrandbits(width) for w in ins}
        import py4hw as _p
        for k2, w in enumerate(ins): q(_p.Constant, s, 'cin%d' % k2, cvals[id(w)], w)
        sim = q(s.getSimulator)
        ref0 = eval_plan(plan, cvals, width); evals += 1
        for kind, a, b, o_ in plan:
            for o in (o_ if isinstance(o_, tuple) else (o_,)):
                if o.get() != ref0[id(o)]:
                    return bfail('settling::at-creation#bounded', evals, {'seed': seed, 'size': size, 'order': order, 'inputs': [cvals[id(w)] for w in ins], 'wire': o.name},
                                 ref0[id(o)], o.get(), 'Simulator.__init__ settling')
        # (1) the evaluation list is sorted along real dependencies, and findFirstDependentPosition is the min position
        pos = {id(l): k for k, l in enumerate(sim.propagatables)}
        for l in sim.propagatables:
            deps = []
            for p in l.outPorts:
                if p.wire is None: continue
                for sp in p.wire.getSinks():
                    if sp.parent.isPropagatable(): deps.append(pos[id(sp.parent)])
            want = min(deps) if deps else -1
            got = sim.findFirstDependentPosition(l)
            evals += 1
            if got != want:
                return bfail('findFirstDependentPosition#bounded', evals, {'seed': seed, 'size': size, 'order': order, 'leaf': l.name}, want, got, 'Simulator.findFirstDependentPosition')
            if deps and min(deps) <= pos[id(l)]:
                return bfail('topologicalSort::sorted#bounded', evals, {'seed': seed, 'size': size, 'order': order, 'leaf': l.name}, 'dependents after position %d' % pos[id(l)], 'dependent at %d' % min(deps), 'Simulator.topologicalSort')
        # (2) fixpoint = order-independent evaluation, at creation and after clk
        for rep in range(0):
            vals = {id(w): rnd.getrandbits(width) for w in ins}
            for w in ins: w.put(vals[id(w)])
            if rep == 0: q(sim.propagateAll)
            else: q(sim.clk, rnd.choice([1, 2]))
            ref = eval_plan(plan, vals, width)
            evals += 1
            for kind, a, b, o_ in plan:
              for o in (o_ if isinstance(o_, tuple) else (o_,)):
                if o.get() != ref[id(o)]:
                    return bfail('settling::fixpoint#bounded', evals, {'seed': seed, 'size': size, 'order': order, 'inputs': [vals[id(w)] for w in ins], 'wire': o.name},
                                 ref[id(o)], o.get(), 'Simulator.__init__/clk settling')
    return bok('settling::random-dags#bounded', evals, 'settling on random DAGs')


def late(seed=0, n=20, **kw):
    """blocks added after the simulator was first obtained (at top level or inside a structural container): after the next
    getSimulator() and a clock call every wire must again hold the order-independent value"""
    import py4hw
    rnd = random.Random(seed); evals = 0
    for it in range(n):
        size = rnd.choice([2, 3, 6, 12]); width = rnd.choice([1, 4, 8])
        s, ins, plan = random_dag(rnd, size, width, 'random', late=True)
        cvals = {id(w): rnd.getrandbits(width) for w in ins}
        # the primary inputs are driven from outside (put): no further top-level block is added after the late ones
        sim = q(s.getSimulator)
        for w in ins: w.put(cvals[id(w)])
        q(sim.clk, 1)
        ref0 = eval_plan(plan, cvals, width); evals += 1
        for kind, a, b, o_ in plan:
            for o in (o_ if isinstance(o_, tuple) else (o_,)):
                if o.get() != ref0[id(o)]:
                    return bfail('settling::late-additions#bounded', evals, {'seed': seed, 'iteration': it, 'size': size, 'inputs': [cvals[id(w)] for w in ins], 'wire': o.name},
                                 ref0[id(o)], o.get(), 'HWSystem.getSimulator / Simulator.topologicalSort')
    return bok('settling::late-additions#bounded', evals, 'blocks added after the first getSimulator()')


def cycles(seed=0, **kw):
    """cyclic netlists are refused; acyclic ones are accepted (completeness, bounded)"""
    import py4hw
    evals = 0; out = []
    # cycles of length 2..6 through combinational gates must be refused
    for n in (2, 3, 4, 6):
        s = q(py4hw.HWSystem); ws = [s.wire('c%d' % k, 4) for k in range(n)]
        for k in range(n): q(py4hw.Not, s, 'n%d' % k, ws[k], ws[(k + 1) % n])
        evals += 1
        try:
            q(s.getSimulator); refused = False
        except Exception:
            refused = True
        if not refused:
            out += bfail('rejection::cycle-length-%d#bounded' % n, evals, {'cycle_length': n}, 'refused with an error', 'simulated', 'Simulator.topologicalSort')
    # self loop: a block reading its own output
    s = q(py4hw.HWSystem); a = s.wire('a', 4)
    q(py4hw.Not, s, 'n', a, a)
    evals += 1
    try:
        q(s.getSimulator); refused = False
    except Exception:
        refused = True
    if not refused:
        out += bfail('rejection::self-loop#bounded', evals, {'cycle_length': 1, 'design': "Not(sys,'n',a,a)"}, 'refused with an error', 'accepted and simulated', 'Simulator.topologicalSort')
    # completeness: reversed chains (worst case for the exchange sort) must be accepted
    for n in (10, 100, 500, 900, 1100):
        s = q(py4hw.HWSystem); ws = [s.wire('w%d' % k, 2) for k in range(n + 1)]
        for k in reversed(range(n)): q(py4hw.Not, s, 'n%d' % k, ws[k], ws[k + 1])
        evals += 1
        try:
            q(s.getSimulator); ok = True
        except Exception as e:
            ok = False
        if not ok:
            out += bfail('completeness::reversed-chain@n=%d#bounded' % n, evals, {'n': n, 'order': 'reversed chain of Not'}, 'accepted (acyclic)', 'refused: excessive loop count', 'Simulator.topologicalSort')
    return out or bok('rejection-and-completeness#bounded', evals, 'Simulator.topologicalSort')


def main(tier, seed, only=None):
    t0 = time.time()
    n = 24 if tier == 'quick' else 240
    items = [('props.kernel_common:heap_item', dict(qual=f, timeout_s=30 if tier == 'quick' else 120)) for f in FUNCS]
    items += [('props.C04:settle', dict(seed=seed * 100 + k, n=n // 8)) for k in range(8)] + [('props.C04:cycles', dict(seed=seed))] + [('props.C04:late', dict(seed=seed * 10 + k, n=n // 4)) for k in range(4)]
    items = common.filter_only(items, only)
    res = run.run_items(items)
    return run.finish(PROP, tier, res, t0, level='proof', seed=seed, functions=['py4hw/simulation.py::' + f for f in FUNCS[:3] + FUNCS[4:]] + ['py4hw/base.py::HWSystem.getSimulator'],
                      assumptions=['abstract leaf contract (L1): propagate() writes only wires driven by the block, re-establishes the block\'s own output/input agreement, and can invalidate only blocks that read one of its outputs; each concrete leaf is proved to refine it in C07/C08/C09 (frame obligations)',
                                   'findFirstDependentPosition is proved against the contract the sorter uses (least position of a dependent, -1 if none), with dep defined as: a propagatable block reading a wire driven by an output port; its requires (the evaluation list holds every propagatable block) are established by the first loop of topologicalSort and kept by the exchanges of the sorting loops: proved (invariants of all three loops), from the assumed contract of allLeaves (every propagatable object is among the leaves it returns)',
                                   'HWSystem.getSimulator returns, on every path, a simulator whose evaluation list is sorted and holds every propagatable leaf (proved from the contracts of Simulator.__init__ -- itself proved, the singleton shortcut of __new__ aside -- and topologicalSort; coverage is proved in topologicalSort from the assumed contract of allLeaves)',
                                   'allLeaves / isClockable / isPropagatable: assumed as declared in contracts/kernel.py (allLeaves returns every propagatable and every clockable object, once); getOrCreateClockDriverSimulator / addClockable are proved (C05 / C10)',
                                   'uniqueness of the fixpoint and rejection of cycles of length >= 2 follow from strict sortedness by induction along the order / along a closed walk (meta-steps, DESIGN 4/C04)',
                                   common.dropped_note()],
                      bounded_parts=[{'what': 'random DAGs (1..30 gates) x instantiation orders (random, reversed, forward): sortedness, findFirstDependentPosition vs independent computation, settled values vs order-independent evaluation at creation and after clk', 'netlists': n},
                                     {'what': 'late additions: random DAGs whose blocks are instantiated partly after a first getSimulator(), at top level or inside structural containers; values after the next getSimulator() + clk(1)'},
                                     {'what': 'rejection of cycles of length 1,2,3,4,6; completeness on reversed chains of 10..1100 blocks'}],
                      trusted_extra=['heap-mode VC generator pvc/heap.py'], canary_ok=work.canary(), min_obligations=10)
