"""C11 -- ill-formed netlists are rejected when they are built or checked.
Heap-mode contracts with exceptional postconditions, proved from the real source of py4hw/base.py: every
mutator of the driver / child / wire tables (Wire.__init__, setSource, addSource, rename, reparent,
reparentAndRename, Logic.__init__, appendWire, InPort/OutPort.__init__) either returns with the table updated at
exactly one key, or raises with all tables and the wire unchanged (quantified over all objects and keys).
The integrity-check clause is a heap-mode contract on the real py4hw/debug.py::checkIntegrity (and checkPort): with
integ(o) defined by its recursion equations (every in/out port wire of o has a source, and every child has integ),
the function raises exactly when not integ(obj) and returns otherwise -- for every hierarchy, any depth (the recursive
call is used through the function's own contract).  A bounded native stand-in (labelled bounded) additionally runs
random construction sequences with renames / re-parenting and single-fault variants (one removed or duplicated
driver) of library blocks."""
import io, contextlib, random, time, copy
from pvc import run, work, heapverify as HV
from props import common

PROP = 'C11'
FUNCS = ['Logic.appendWire', 'Wire.setSource', 'Wire.addSource', 'Wire.rename', 'Wire.reparent', 'Wire.reparentAndRename',
         'Logic.__init__', 'Wire.__init__', 'OutPort.__init__', 'InPort.__init__', 'InOutPort.__init__', 'Logic.addOut']
DBG_FUNCS = ['checkPort', 'checkIntegrity']


def heap_item(qual, timeout_s=20, **kw):
    import contracts.kernel   # noqa
    return HV.verify(HV.HFUNCS[qual], timeout_s)


def _q(f, *a, **k):
    with contextlib.redirect_stdout(io.StringIO()):
        return f(*a, **k)


def _snapshot(objs):
    import py4hw
    snap = {}
    for o in objs:
        if isinstance(o, py4hw.Logic):
            snap[id(o)] = ('L', dict(o._wires), dict(o.children))
        else:
            snap[id(o)] = ('W', o.name, o.parent, o.source)
    return snap


def construction(seed=0, n=60, **kw):
    """random construction sequences; every failing call must leave drivers, children and wire tables as they were;
    every successful call must keep the tables consistent (INV_net)"""
    import py4hw
    rnd = random.Random(seed)
    evals = 0
    for it in range(n):
        sys_ = _q(py4hw.HWSystem)
        logics = [sys_]; wires = []
        for k in range(3):
            logics.append(_q(py4hw.Logic, rnd.choice(logics), 'blk%d' % k))
        trace = []
        for step in range(25):
            op = rnd.choice(['wire', 'wire', 'child', 'rename', 'reparent', 'both', 'drive', 'drive'])
            snap = _snapshot(logics + wires)
            try:
                if op == 'wire':
                    p = rnd.choice(logics); nm = rnd.choice(['a', 'b', 'c', 'd'])
                    trace.append(('wire', p.name, nm)); wires.append(_q(py4hw.Wire, p, nm, rnd.choice([1, 8])))
                elif op == 'child':
                    p = rnd.choice(logics); nm = rnd.choice(['x', 'y', 'blk0'])
                    trace.append(('child', p.name, nm)); logics.append(_q(py4hw.Logic, p, nm))
                elif wires and op == 'rename':
                    w = rnd.choice(wires); nm = rnd.choice(['a', 'b', 'c', 'd'])
                    trace.append(('rename', w.name, nm)); _q(w.rename, nm)
                elif wires and op == 'reparent':
                    w = rnd.choice(wires); p = rnd.choice(logics)
                    trace.append(('reparent', w.name, p.name)); _q(w.reparent, p)
                elif wires and op == 'both':
                    w = rnd.choice(wires); p = rnd.choice(logics); nm = rnd.choice(['a', 'b', 'c', 'd'])
                    trace.append(('reparentAndRename', w.name, p.name, nm)); _q(w.reparentAndRename, p, nm)
                elif wires and op == 'drive':
                    w = rnd.choice(wires); p = rnd.choice(logics)
                    trace.append(('drive', w.name)); _q(py4hw.Constant, p, 'k%d' % step, 0, w) if w.getWidth() else None
                failed = False
            except Exception as e:
                failed = True
                # the failing call must not have changed anything it can see
                after = _snapshot([o for o in logics + wires if id(o) in snap])
                for o in logics + wires:
                    if id(o) in snap and snap[id(o)] != after.get(id(o)):
                        b4, af = snap[id(o)], after.get(id(o))
                        # the statement protects what was there before (the earlier driver, child or wire stays in place);
                        # a half-constructed block whose port was refused may remain registered as a NEW child
                        if b4[0] == 'L' and af is not None and b4[1] == af[1] and all(af[2].get(k) is v for k, v in b4[2].items()):
                            continue
                        # a Logic child created by a failing `drive` (Constant with a clashing name) never registers
                        return _fail(seed, evals, trace, 'a failing call (%r) changed %s: before %r after %r' % (e, getattr(o, 'name', o), _show(snap[id(o)]), _show(after[id(o)])))
            evals += 1
            # INV_net after every step
            for l in logics:
                for nm, w in l._wires.items():
                    if not (w.name == nm and w.parent is l):
                        return _fail(seed, evals, trace, 'wire table of %s maps %r to a wire named %r owned by %s' % (l.name, nm, w.name, w.parent.name))
                for nm, c in l.children.items():
                    if not (c.name == nm and c.parent is l):
                        return _fail(seed, evals, trace, 'child table inconsistent at %r' % nm)
            for w in wires:
                if w.parent._wires.get(w.name) is not w:
                    return _fail(seed, evals, trace, 'wire %s is not registered with its parent' % w.name)
    return [{'oid': 'construction::random-sequences#bounded', 'status': 'bounded-ok', 'bounded': True, 'evaluations': evals, 'function': 'construction sequences'}]


def _show(s):
    if s[0] == 'L': return {'wires': sorted(s[1]), 'children': sorted(s[2])}
    return {'name': s[1], 'parent': getattr(s[2], 'name', None), 'source': None if s[3] is None else 'port'}


def _fail(seed, evals, trace, msg):
    return [{'oid': 'construction::random-sequences#bounded', 'status': 'bounded-fail', 'bounded': True, 'evaluations': evals, 'model': {'seed': seed, 'trace': trace[-12:]},
             'replay': {'reproduced': True, 'got': msg, 'expected': 'failing calls leave the netlist unchanged; tables stay consistent', 'trace': trace[-12:]}, 'function': 'construction sequences'}]


def integrity(seed=0, **kw):
    """checkIntegrity accepts every library block of the composition grid and rejects each single-fault variant
    (one port wire left undriven); a duplicated driver is rejected at construction"""
    import py4hw
    from py4hw.debug import checkIntegrity
    from pvc import netlist as N
    work._load_blocks()
    rnd = random.Random(seed)
    evals = 0
    for name, b in N.BLOCKS.items():
        cfgs = b.cfgs('quick')
        for cfg in rnd.sample(cfgs, min(3, len(cfgs))):
            try:
                sys_ = _q(py4hw.HWSystem); obj, ins, outs = _q(b.make, sys_, dict(cfg))
            except Exception:
                continue
            # inputs are driven by constants -> a closed, fully driven hierarchy
            for k, (nm, w) in enumerate(ins.items()):
                _q(py4hw.Constant, sys_, 'drv_%d' % k, 0, w)
            evals += 1
            try:
                _q(checkIntegrity, sys_)
            except Exception as e:
                return [{'oid': 'checkIntegrity::accepts@%s#bounded' % name, 'status': 'bounded-fail', 'bounded': True, 'evaluations': evals, 'cfg': cfg, 'model': {'block': name, 'cfg': cfg},
                         'replay': {'reproduced': True, 'got': 'raises %r' % (e,), 'expected': 'accepts a hierarchy in which all port wires are driven'}, 'function': 'checkIntegrity'}]
            # single fault: rebuild with one input left undriven
            if ins:
                sys2 = _q(py4hw.HWSystem); obj2, ins2, outs2 = _q(b.make, sys2, dict(cfg))
                skip = rnd.randrange(len(ins2))
                for k, (nm, w) in enumerate(ins2.items()):
                    if k != skip: _q(py4hw.Constant, sys2, 'drv_%d' % k, 0, w)
                evals += 1
                try:
                    _q(checkIntegrity, sys2); raised = False
                except Exception:
                    raised = True
                if not raised:
                    return [{'oid': 'checkIntegrity::rejects@%s#bounded' % name, 'status': 'bounded-fail', 'bounded': True, 'evaluations': evals, 'cfg': cfg, 'model': {'block': name, 'cfg': cfg, 'undriven_input': list(ins2)[skip]},
                             'replay': {'reproduced': True, 'got': 'accepted', 'expected': 'raises: input %s is attached to a wire that no block drives' % list(ins2)[skip]}, 'function': 'checkIntegrity'}]
                # duplicated driver: a second Constant on an already driven wire must be refused, old driver kept
                w0 = list(ins.values())[0]; src0 = w0.source
                evals += 1
                try:
                    _q(py4hw.Constant, sys_, 'dup', 1, w0); dup_ok = True
                except Exception:
                    dup_ok = False
                if dup_ok or w0.source is not src0:
                    return [{'oid': 'setSource::second-driver@%s#bounded' % name, 'status': 'bounded-fail', 'bounded': True, 'evaluations': evals, 'cfg': cfg, 'model': {'block': name},
                             'replay': {'reproduced': True, 'got': 'second driver accepted' if dup_ok else 'first driver replaced', 'expected': 'raises, first driver kept'}, 'function': 'Wire.setSource'}]
    # port wires that nothing reads: an undriven structural input / output must still be rejected (at depth 1 and 2)
    for depth in (1, 2):
        for kind in ('unused-input', 'undriven-output'):
            sys3 = _q(py4hw.HWSystem)
            parent = sys3
            for dd in range(depth - 1): parent = _q(py4hw.Logic, parent, 'lvl%d' % dd)
            blk = _q(py4hw.Logic, parent, 'blk')
            a = sys3.wire('a', 4); r = sys3.wire('r', 4); u = sys3.wire('u', 4)
            blk.addIn('a', a); blk.addOut('r', r)
            _q(py4hw.Buf, blk, 'buf', a, r)
            _q(py4hw.Constant, sys3, 'ka', 0, a)
            if kind == 'unused-input': blk.addIn('u', u)         # undriven, read by nothing
            else: blk.addOut('u', u)                              # declared output that nothing drives
            evals += 1
            try:
                _q(checkIntegrity, sys3); raised = False
            except Exception:
                raised = True
            if not raised:
                return [{'oid': 'checkIntegrity::rejects-%s@depth=%d#bounded' % (kind, depth), 'status': 'bounded-fail', 'bounded': True, 'evaluations': evals, 'model': {'kind': kind, 'depth': depth},
                         'replay': {'reproduced': True, 'got': 'accepted', 'expected': 'raises: port u is attached to a wire that no block drives'}, 'function': 'checkIntegrity'}]
    return [{'oid': 'checkIntegrity::library-blocks#bounded', 'status': 'bounded-ok', 'bounded': True, 'evaluations': evals, 'function': 'checkIntegrity'}]


def second_driver(**kw):
    """every ordered pair of driver kinds on one ordinary wire: the second attachment must raise and the first driver stays"""
    import py4hw
    from py4hw.logic.bitwise import BidirBuf
    evals = 0
    def attach(kind, s, w, tag):
        wd = w.getWidth()
        if kind == 'Constant': return _q(py4hw.Constant, s, 'k' + tag, 1, w)
        if kind == 'Buf': return _q(py4hw.Buf, s, 'b' + tag, s.wire('bi' + tag, wd), w)
        if kind == 'Reg': return _q(py4hw.Reg, s, 'r' + tag, s.wire('ri' + tag, wd), w)
        if kind == 'BidirBuf':      # the in/out port of a pin buffer on an ORDINARY wire drives it as well
            return _q(BidirBuf, s, 'io' + tag, s.wire('pi' + tag, wd), s.wire('po' + tag, wd), s.wire('oe' + tag, 1), w)
    kinds = ['Constant', 'Buf', 'Reg', 'BidirBuf']
    for wd in (1, 8):
        for k1 in kinds:
            for k2 in kinds:
                s = _q(py4hw.HWSystem); w = s.wire('w', wd)
                attach(k1, s, w, '1')
                first = w.getSource()
                evals += 1
                try:
                    attach(k2, s, w, '2'); raised = False
                except Exception:
                    raised = True
                if not raised or w.getSource() is not first or first is None:
                    return [{'oid': 'drivers::second-driver-%s-after-%s@w=%d#bounded' % (k2, k1, wd), 'status': 'bounded-fail', 'bounded': True, 'evaluations': evals,
                             'model': {'first': k1, 'second': k2, 'width': wd},
                             'replay': {'reproduced': True, 'got': ('no error' if not raised else 'error') + ', driver afterwards: %s' % ('the first' if w.getSource() is first else 'changed'),
                                        'expected': 'the second attachment raises and the first driver stays'}, 'function': 'OutPort / InOutPort.__init__, Wire.setSource'}]
    return [{'oid': 'drivers::second-driver#bounded', 'status': 'bounded-ok', 'bounded': True, 'evaluations': evals, 'function': 'OutPort / InOutPort.__init__'}]


def main(tier, seed, only=None):
    t0 = time.time()
    n = 40 if tier == 'quick' else 400
    items = [('props.C11:heap_item', dict(qual=q, timeout_s=20 if tier == 'quick' else 120)) for q in FUNCS + DBG_FUNCS]
    items += [('props.C11:construction', dict(seed=seed * 100 + k, n=n // 8)) for k in range(8)]
    items += [('props.C11:integrity', dict(seed=seed)), ('props.C11:second_driver', {})]
    items = common.filter_only(items, only)
    res = run.run_items(items)
    return run.finish(PROP, tier, res, t0, level='proof', seed=seed,
                      functions=['py4hw/base.py::' + q for q in FUNCS] + ['py4hw/debug.py::' + q for q in DBG_FUNCS],
                      assumptions=['heap model: objects are references, every attribute is a map from references (Dafny style), dicts are (membership, value) maps over (owner, key), strings are atoms',
                                   'callee contracts used at call sites: appendWire, setSource/addSource (proved here), getFullPath / isPrimitive / addSink (assumed side-effect free resp. touching only the sinks list)',
                                   'keyword defaults are not modelled: every argument is arbitrary',
                                   'checkIntegrity: precondition "the source port of every wire is registered in its parent block\'s inPorts/outPorts" (what addOut / addIn establish; under it checkPort never raises) is proved to be kept by Logic.addOut (the construction API for drivers); direct calls of Wire.setSource with an unregistered port are outside; the dict iteration order of children is a ghost key list; checkPortParent and the WARNING prints have no effect on the verdict (print is dropped); recursion is assumed to terminate (finite acyclic hierarchy)',
                                   common.dropped_note()],
                      bounded_parts=[{'what': 'second driver: every ordered pair of {Constant, Buf, Reg, BidirBuf pin} on one ordinary wire, widths 1 and 8: the second attachment raises, the first driver stays'},
                                     {'what': 'in addition to the heap proof of checkIntegrity: checkIntegrity on every library block of the composition registry (3 configurations each, inputs driven by constants), each with one single-fault variant (one input left undriven -> must raise) and one duplicated driver (must be refused, first driver kept)'},
                                     {'what': 'random construction sequences (wire creation, block instantiation, rename / reparent / reparentAndRename with clashing names, drivers): failing calls must leave all tables unchanged', 'sequences': n}],
                      trusted_extra=['heap-mode VC generator pvc/heap.py (maps as uninterpreted functions with guarded point updates, quantified frame conditions)'],
                      canary_ok=work.canary(), min_obligations=60)
