"""C01 -- generated Verilog behaves exactly like the simulated structural design.
For every design of the design set: the text produced by the real VerilogGenerator is parsed and elaborated by
pvc.vsem (IEEE 1364-2005 sizing / signedness / non-blocking update / initial values) into a flat transition system;
the simulator side is the composition of the proved leaf contracts over the real netlist (pvc.netlist).  z3 proves,
for all input values and all register states: equal outputs, equal next state under the register-wise
correspondence, equal initial state, and that no compared value is x.  A counter-model is replayed on the REAL
simulator and on the Verilog terms before it is reported."""
import io, contextlib, time, random, os
from pvc import run, work, vcompare, vsem, netlist as N, leaf as L, ir
from props import common

PROP = 'C01'


def _q(f, *a, **k):
    with contextlib.redirect_stdout(io.StringIO()):
        return f(*a, **k)


def wrap(name, make, cfg):
    """build the block inside a wrapper Logic whose ports are the block's free wires"""
    import py4hw
    sys_ = _q(py4hw.HWSystem)
    def wire(self, nm, width=1): return self.parent.wire(nm, width)
    W = type('W_' + name, (py4hw.Logic,), {'wire': wire})
    top = _q(W, sys_, 'top')
    obj, ins, outs = _q(make, top, dict(cfg))
    pin = {}; pout = {}
    for n, w in ins.items():
        top.addIn(w.name, w); pin[w.name] = w
    for n, w in outs.items():
        top.addOut(w.name, w); pout[w.name] = w
    return sys_, top, pin, pout, ins, outs


def design_item(name, cfg, tier='quick', timeout_s=20, seed=0):
    work._load_blocks()
    b = N.BLOCKS[name]
    tag = work._cfg_tag(cfg)
    base = 'design::%s@%s' % (name, tag)
    try:
        sys_, top, pin, pout, ins, outs = wrap(name, b.make, cfg)
    except Exception as e:
        return [{'oid': base + '#refused', 'status': 'refused', 'bounded': True, 'evaluations': 0, 'reason': repr(e)[:200]}]
    def assume(I):
        # divisions by zero are excluded by a hypothesis on the divisor nets, as the statement allows
        if b.requires and name in ('Div', 'Mod', 'SignedDiv'):
            I2 = {k: I[w.name] for k, w in ins.items()}
            return [ir.truth(x) for x in b.requires(cfg, I2)]
        return []
    try:
        res, text = vcompare.compare(sys_, top, pin, pout, base, timeout_s=timeout_s, assume=assume)
    except (N.Undecided, L.Unsupported, L.ShapeError, ir.EvalError) as e:
        return [{'oid': base + '#undecided', 'status': 'unknown', 'reason': '%s: %s' % (type(e).__name__, e), 'cfg': cfg, 'function': name}]
    for r in res:
        r['cfg'] = dict(cfg, block=name)
        r.pop('_hyps', None); r.pop('_goal', None)
    if PROP == 'C01':
        # legality of the text (scalar selects, replication counts, declarations ...) is C03's subject; C01 compares behaviour
        res = [r for r in res if '#wellformed[' not in r['oid']]
    return res


# ---- adversarial parameter set: constructor parameters the block grid of C07-C09 does not vary (the statement quantifies
# over constants, reset values, multi-bit control wires ...)
def _adv():
    import py4hw
    from py4hw.logic import bitwise as B, relational as R, storage as S_, arithmetic as A
    D = {}
    def reg(s, c):
        d = s.wire('d', c['w']); q_ = s.wire('q', c['w']); ins = {'d': d}
        e = r = None
        if c.get('e'): e = s.wire('e', c['e']); ins['e'] = e
        if c.get('r'): r = s.wire('r', c['r']); ins['r'] = r
        return S_.Reg(s, 'reg', d, q_, enable=e, reset=r, reset_value=c.get('rv')), ins, {'q': q_}
    D['Reg'] = (reg, [dict(w=4, e=1, r=1, rv=5), dict(w=4, e=2, r=0), dict(w=4, e=0, r=2, rv=3), dict(w=3, e=0, r=0, rv=9), dict(w=8, e=1, r=1, rv=-1)])
    def mux2(s, c):
        sel = s.wire('sel', c['sw']); a = s.wire('a', c['w']); b = s.wire('b', c['w']); r = s.wire('r', c['w'])
        return B.Mux2(s, 'mux', sel, a, b, r), {'sel': sel, 'a': a, 'b': b}, {'r': r}
    D['Mux2'] = (mux2, [dict(sw=1, w=4), dict(sw=2, w=4), dict(sw=3, w=1)])
    def eqc(s, c):
        a = s.wire('a', c['w']); r = s.wire('r', 1)
        return R.EqualConstant(s, 'eq', a, c['v'], r), {'a': a}, {'r': r}
    D['EqualConstant'] = (eqc, [dict(w=2, v=5), dict(w=3, v=8), dict(w=4, v=15), dict(w=1, v=1), dict(w=1, v=0), dict(w=1, v=3)])
    def const(s, c):
        r = s.wire('r', c['w']); a = s.wire('a', 1); x = s.wire('x', c['w'])
        k = B.Constant(s, 'k', c['v'], r)
        return k, {}, {'r': r}
    D['Constant'] = (const, [dict(w=8, v=5), dict(w=8, v=300), dict(w=8, v=-1), dict(w=40, v=(1 << 33) + 5), dict(w=4, v=1 << 32), dict(w=64, v=(1 << 64) - 1), dict(w=1, v=2)])
    def equal(s, c):
        a = s.wire('a', c['aw']); b = s.wire('b', c['bw']); r = s.wire('r', 1)
        return R.Equal(s, 'eq', a, b, r), {'a': a, 'b': b}, {'r': r}
    D['Equal'] = (equal, [dict(aw=4, bw=4), dict(aw=2, bw=4), dict(aw=4, bw=2)])
    def shk(cls):
        def mk(s, c):
            a = s.wire('a', c['w']); r = s.wire('r', c['rw'])
            return cls(s, 'sh', a, c['n'], r), {'a': a}, {'r': r}
        return mk
    D['ShiftLeftConstant'] = (shk(B.ShiftLeftConstant), [dict(w=4, rw=8, n=2), dict(w=8, rw=4, n=3), dict(w=4, rw=4, n=40)])
    D['ShiftRightConstant'] = (shk(B.ShiftRightConstant), [dict(w=4, rw=8, n=2), dict(w=8, rw=4, n=3), dict(w=4, rw=4, n=40)])
    def bit(s, c):
        a = s.wire('a', c['w']); r = s.wire('r', 1)
        return B.Bit(s, 'bit', a, c['bit'], r), {'a': a}, {'r': r}
    D['Bit'] = (bit, [dict(w=4, bit=3), dict(w=4, bit=6)])
    def rng(s, c):
        a = s.wire('a', c['w']); r = s.wire('r', c['rw'])
        return B.Range(s, 'rng', a, c['high'], c['low'], r), {'a': a}, {'r': r}
    D['Range'] = (rng, [dict(w=8, high=5, low=2, rw=4), dict(w=8, high=5, low=2, rw=2), dict(w=4, high=6, low=2, rw=5),
                        dict(w=8, high=3, low=0, rw=8), dict(w=8, high=3, low=0, rw=6), dict(w=8, high=0, low=0, rw=4)])   # low == 0, result wider than the field
    def sext(s, c):
        a = s.wire('a', c['w']); r = s.wire('r', c['rw'])
        return A.SignExtend(s, 'sx', a, r), {'a': a}, {'r': r}
    D['SignExtend'] = (sext, [dict(w=4, rw=8), dict(w=4, rw=4), dict(w=8, rw=4)])
    def smul(s, c):
        a = s.wire('a', c['aw']); b = s.wire('b', c['bw']); r = s.wire('r', c['rw'])
        return A.SignedMul(s, 'm', a, b, r), {'a': a, 'b': b}, {'r': r}
    D['SignedMul'] = (smul, [dict(aw=4, bw=4, rw=8), dict(aw=3, bw=5, rw=8), dict(aw=4, bw=4, rw=12)])
    # n-ary gates with operands of different widths (emitted as ONE assign over all operands, built in the simulator as a ladder of
    # two-input gates): narrow operand first / in the middle / last
    def nary(cls):
        def mk(s, c):
            ins = [s.wire('i%d' % k, w) for k, w in enumerate(c['ws'])]; r = s.wire('r', c['rw'])
            return cls(s, 'g', ins, r), {'i%d' % k: w for k, w in enumerate(ins)}, {'r': r}
        return mk
    mixed = [dict(ws=(1, 8, 8), rw=8), dict(ws=(8, 1, 8), rw=8), dict(ws=(8, 8, 1), rw=8), dict(ws=(2, 4, 8, 8), rw=8), dict(ws=(4, 4, 4), rw=8), dict(ws=(8, 8, 8), rw=4)]
    for nm in ('Or', 'And', 'Nor', 'Xor'):
        if hasattr(B, nm): D[nm + 'MixedWidths'] = (nary(getattr(B, nm)), mixed)
    return D


def _multi():
    """designs with several instances of one class that differ in optional ports / parameters: they may or may not share a
    module name, and binding an instance to the first emitted body must not change its behaviour or interface"""
    import py4hw
    from py4hw.logic import storage as S_, arithmetic as A, bitwise as B
    D = {}
    def two_regs_rv(s, c):
        d = s.wire('d', 8); e = s.wire('e'); q1 = s.wire('q1', 8); q2 = s.wire('q2', 8)
        S_.Reg(s, 'r1', d, q1, enable=e, reset_value=0); S_.Reg(s, 'r2', d, q2, enable=e, reset_value=5)
        return None, {'d': d, 'e': e}, {'q1': q1, 'q2': q2}
    D['two-Reg8E-different-reset-values'] = two_regs_rv
    def two_regs_rv_reset(s, c):
        d = s.wire('d', 8); r = s.wire('r'); q1 = s.wire('q1', 8); q2 = s.wire('q2', 8)
        S_.Reg(s, 'r1', d, q1, reset=r, reset_value=3); S_.Reg(s, 'r2', d, q2, reset=r, reset_value=200)
        return None, {'d': d, 'r': r}, {'q1': q1, 'q2': q2}
    D['two-Reg8R-different-reset-values'] = two_regs_rv_reset
    def two_adds(s, c):
        a = s.wire('a', 8); b = s.wire('b', 8); inc = s.wire('inc', 1); r1 = s.wire('r1', 8); r2 = s.wire('r2', 8)
        A.Add(s, 'add1', a, inc, r1); A.Add(s, 'add2', a, b, r2)
        return None, {'a': a, 'b': b, 'inc': inc}, {'r1': r1, 'r2': r2}
    D['two-Add-same-result-width-different-operand-widths'] = two_adds
    def two_adds_rev(s, c):
        a = s.wire('a', 8); b = s.wire('b', 8); inc = s.wire('inc', 1); r1 = s.wire('r1', 8); r2 = s.wire('r2', 8)
        A.Add(s, 'add2', a, b, r2); A.Add(s, 'add1', a, inc, r1)
        return None, {'a': a, 'b': b, 'inc': inc}, {'r1': r1, 'r2': r2}
    D['two-Add-wide-first'] = two_adds_rev
    def regs_opt(s, c):
        d = s.wire('d', 4); e = s.wire('e'); r = s.wire('r'); q1 = s.wire('q1', 4); q2 = s.wire('q2', 4); q3 = s.wire('q3', 4); q4 = s.wire('q4', 4)
        S_.Reg(s, 'r1', d, q1); S_.Reg(s, 'r2', d, q2, enable=e); S_.Reg(s, 'r3', d, q3, reset=r); S_.Reg(s, 'r4', d, q4, enable=e, reset=r)
        return None, {'d': d, 'e': e, 'r': r}, {'q1': q1, 'q2': q2, 'q3': q3, 'q4': q4}
    D['four-Reg4-all-optional-port-combinations'] = regs_opt
    def two_sext(s, c):
        a = s.wire('a', 4); r1 = s.wire('r1', 8); r2 = s.wire('r2', 6)
        A.SignExtend(s, 'sx1', a, r1); A.SignExtend(s, 'sx2', a, r2)
        return None, {'a': a}, {'r1': r1, 'r2': r2}
    D['two-SignExtend-different-result-widths'] = two_sext
    def two_neg_abs(s, c):
        a = s.wire('a', 8); r1 = s.wire('r1', 8); r2 = s.wire('r2', 4); r3 = s.wire('r3', 8)
        A.Neg(s, 'n1', a, r1); A.Neg(s, 'n2', a, r2); A.Abs(s, 'abs', a, r3)
        return None, {'a': a}, {'r1': r1, 'r2': r2, 'r3': r3}
    D['Neg8-two-result-widths-and-Abs8'] = two_neg_abs
    def counters(s, c):
        rs = s.wire('rs'); inc = s.wire('inc'); q1 = s.wire('q1', 4); q2 = s.wire('q2', 4); co = s.wire('co')
        A.Counter(s, 'c1', rs, inc, q1); A.ModuloCounter(s, 'c2', 10, rs, inc, q2, co)
        return None, {'rs': rs, 'inc': inc}, {'q1': q1, 'q2': q2, 'co': co}
    D['Counter-and-ModuloCounter'] = counters
    # same class, same INSTANCE name, different parents, different parameters: module names must still tell the bodies apart
    def two_dividers(s, c):
        from py4hw.logic import clock as CK
        o1 = s.wire('o1'); o2 = s.wire('o2')
        CK.ClockDivider(s, 'div_a', 12, 2, o1); CK.ClockDivider(s, 'div_b', 20, 2, o2)       # both contain a ModuloCounter named 'count'
        return None, {}, {'o1': o1, 'o2': o2}
    D['two-ClockDividers-with-different-ratios'] = two_dividers
    def same_names_below(s, c):
        import py4hw as P
        rs = s.wire('rs'); inc = s.wire('inc'); q1 = s.wire('q1', 4); q2 = s.wire('q2', 4); c1 = s.wire('c1'); c2 = s.wire('c2')
        b1 = P.Logic(s, 'stage1'); b1.addIn('rs', rs); b1.addIn('inc', inc); b1.addOut('q1', q1); b1.addOut('c1', c1)
        b2 = P.Logic(s, 'stage2'); b2.addIn('rs', rs); b2.addIn('c1', c1); b2.addOut('q2', q2); b2.addOut('c2', c2)
        A.ModuloCounter(b1, 'cnt', 3, rs, inc, q1, c1); A.ModuloCounter(b2, 'cnt', 5, rs, c1, q2, c2)
        return None, {'rs': rs, 'inc': inc}, {'q1': q1, 'q2': q2, 'c2': c2}
    D['same-instance-name-under-two-parents-different-moduli'] = same_names_below
    return D


def multi_item(name, tier='quick', timeout_s=20, seed=0):
    work._load_blocks()
    base = 'design::multi.%s' % name
    try:
        sys_, top, pin, pout, ins, outs = wrap('multi_' + ''.join(ch if ch.isalnum() else '_' for ch in name), _multi()[name], {})
    except Exception as e:
        return [{'oid': base + '#refused', 'status': 'refused', 'bounded': True, 'evaluations': 0, 'reason': repr(e)[:200]}]
    try:
        res, text = vcompare.compare(sys_, top, pin, pout, base, timeout_s=timeout_s)
    except (N.Undecided, L.Unsupported, L.ShapeError, ir.EvalError) as e:
        return [{'oid': base + '#undecided', 'status': 'unknown', 'reason': '%s: %s' % (type(e).__name__, e), 'function': name}]
    for r in res: r['cfg'] = {'design': name}
    return [r for r in res if '#wellformed[' not in r['oid']]


def adv_item(name, k, tier='quick', timeout_s=20, seed=0):
    work._load_blocks()
    make, cfgs = _adv()[name]
    cfg = cfgs[k]
    base = 'design::adv.%s@%s' % (name, work._cfg_tag(cfg))
    try:
        sys_, top, pin, pout, ins, outs = wrap(name, make, cfg)
    except Exception as e:
        return [{'oid': base + '#refused', 'status': 'refused', 'bounded': True, 'evaluations': 0, 'reason': repr(e)[:200]}]
    try:
        res, text = vcompare.compare(sys_, top, pin, pout, base, timeout_s=timeout_s)
    except (N.Undecided, L.Unsupported, L.ShapeError, ir.EvalError) as e:
        return [{'oid': base + '#undecided', 'status': 'unknown', 'reason': '%s: %s' % (type(e).__name__, e), 'cfg': cfg, 'function': name}]
    for r in res: r['cfg'] = dict(cfg, block=name)
    return [r for r in res if '#wellformed[' not in r['oid']]


COMPOSABLE = ['Add', 'SignedAdd', 'Neg', 'Abs', 'Sub', 'Mul', 'SignExtend', 'ZeroExtend', 'ShiftLeft', 'ShiftRight', 'And', 'Or', 'Xor', 'Nor', 'Not', 'Mux2', 'Mux',
              'Comparator', 'Equal', 'EqualConstant', 'Max2', 'Min2', 'Select', 'Decoder', 'PriorityEncoder', 'Counter', 'ModuloCounter', 'DelayLine', 'Reg', 'TReg',
              'EdgeDetector', 'ShiftRegisterBidirectional', 'CountLeadingZeros', 'Bit', 'Range', 'ConcatenateMSBF', 'BitsLSBF', 'Repeat']


def build_random(seed):
    """a seeded random composition: 2-4 registry blocks, each inside its own sub-block (hierarchy depth 3), chained through
    Buf leaves wherever an output width matches a later input width; the same block / structure name may occur twice"""
    import py4hw
    rnd = random.Random(seed)
    sys_ = _q(py4hw.HWSystem)
    def top_wire(self, nm, width=1): return self.parent.wire(nm, width)
    Top = type('W_rand%d' % seed, (py4hw.Logic,), {'wire': top_wire})
    top = _q(Top, sys_, 'top')
    free_in = {}; all_out = []; desc = []
    nblocks = rnd.randint(2, 4)
    for k in range(nblocks):
        name = rnd.choice(COMPOSABLE)
        b = N.BLOCKS[name]
        cfgs = [c for c in b.cfgs('quick') if all(not isinstance(v, int) or v <= 8 for v in c.values())] or b.cfgs('quick')
        if name == 'Reg': cfgs = [c for c in cfgs if c.get('e', 0) <= 1]      # multi-bit enable is a listed finding (C01-bodyreg-multibit-enable)
        cfg = rnd.choice(cfgs)
        def sub_wire(self, nm, width=1, _k=k): return top.__class__.__mro__[1].wire(top, 'b%d_%s' % (_k, nm), width)
        Sub = type('Sub%d_%s' % (k, name), (py4hw.Logic,), {'wire': sub_wire})
        subl = _q(Sub, top, 'b%d' % k)
        try:
            obj, ins, outs = _q(b.make, subl, dict(cfg))
        except Exception:
            del top.children['b%d' % k]
            continue
        for n, w in ins.items(): subl.addIn(n, w)
        for n, w in outs.items(): subl.addOut(n, w)
        desc.append((name, cfg))
        # feed some inputs from earlier outputs of equal width
        for n, w in ins.items():
            cands = [o for o in all_out if o.getWidth() == w.getWidth()]
            if cands and rnd.random() < 0.6:
                src = rnd.choice(cands)
                _q(py4hw.Buf, top, 'link%d_%s' % (k, n), src, w)
            else:
                free_in[w.name] = w
        all_out.extend(outs.values())
    pin = {}; pout = {}
    for n, w in free_in.items():
        w.reparent(sys_); top.addIn(n, w); pin[n] = w
    for w in all_out:
        w.reparent(sys_); top.addOut(w.name, w); pout[w.name] = w
    return sys_, top, pin, pout, desc


def rand_item(seed, timeout_s=20, **kw):
    work._load_blocks()
    base = 'design::rand.%d' % seed
    try:
        sys_, top, pin, pout, desc = build_random(seed)
    except Exception as e:
        return [{'oid': base + '#refused', 'status': 'refused', 'bounded': True, 'evaluations': 0, 'reason': repr(e)[:200]}]
    if not desc or not pout:
        return [{'oid': base + '#refused', 'status': 'refused', 'bounded': True, 'evaluations': 0}]
    try:
        res, text = vcompare.compare(sys_, top, pin, pout, base, timeout_s=timeout_s)
    except (N.Undecided, L.Unsupported, L.ShapeError, ir.EvalError) as e:
        return [{'oid': base + '#undecided', 'status': 'unknown', 'reason': '%s: %s' % (type(e).__name__, e), 'function': 'random composition'}]
    for r in res:
        r['cfg'] = {'seed': seed, 'blocks': [d[0] for d in desc], 'e': 0, 'sw': 0}
        r['composition'] = desc
    return [r for r in res if '#wellformed[' not in r['oid']]


def main(tier, seed, only=None):
    t0 = time.time()
    work._load_blocks()
    rnd = random.Random(seed)
    items = []
    skip = {'FPAdder_SP'} if tier == 'quick' else set()
    for name, b in N.BLOCKS.items():
        if name in skip: continue
        cfgs = b.cfgs(tier)
        k = 3 if tier == 'quick' else 12
        # deterministic stride through the configuration list (the committed baseline must not depend on the seed) ...
        stride = max(1, len(cfgs) // k)
        pick = cfgs[::stride][:k]
        # ... plus one seeded extra configuration per block
        if not os.environ.get('PVC_BASELINE'): pick = pick + rnd.sample(cfgs, 1)
        seen = set()
        for cfg in pick:
            t = work._cfg_tag(cfg)
            if t in seen: continue
            seen.add(t)
            items.append(('props.C01:design_item', dict(name=name, cfg=cfg, tier=tier, timeout_s=20 if tier == 'quick' else 120, seed=seed)))
    for nm, (mk, cfgs) in _adv().items():
        items += [('props.C01:adv_item', dict(name=nm, k=k, tier=tier, timeout_s=20 if tier == 'quick' else 120, seed=seed)) for k in range(len(cfgs))]
    from props import C02 as _C02
    items += [('props.C02:program_item', dict(kind=k_, name=n_, meth=m_, timeout_s=30)) for (k_, n_, m_) in _C02.body_programs()]
    items += [('props.C01:multi_item', dict(name=nm, timeout_s=20 if tier == 'quick' else 120)) for nm in _multi()]
    if not os.environ.get('PVC_BASELINE'):
        items += [('props.C01:rand_item', dict(seed=seed * 1000 + k, timeout_s=20 if tier == 'quick' else 120)) for k in range(24 if tier == 'quick' else 200)]
    items = common.filter_only(items, only)
    res = run.run_items(items)
    refused = [r for r in res if r.get('status') == 'refused']
    res = [r for r in res if r.get('status') != 'refused']
    return run.finish(PROP, tier, res, t0, level='translation_validation', seed=seed,
                      functions=['py4hw/rtl_generation.py::VerilogGenerator (all emitters reached by the design set)'],
                      assumptions=['pvc.vsem is this check\'s reading of IEEE 1364-2005 for the emitted subset (DESIGN Appendix A): new trusted code, exercised by the native replay of every counter-model',
                                   'simulator side = composition of leaf contracts proved in C07/C08/C09 in the order computed by the real Simulator',
                                   'register outputs before the first edge are not compared (py4hw leaves q at 0 until the first edge); initial register values are compared',
                                   'divisions / modulo by zero excluded by hypothesis (the statement excludes them)',
                                   'hand-written verilogBody() next to a Python clock() (MsgSequencer): compared as in C02 (symbolic execution of the Python method vs vsem of the body)'],
                      extra_cov={'programs': len(items) - len(refused), 'disagreements_checked': len([r for r in res if r.get('status') == 'refuted'])},
                      bounded_parts=[{'what': 'design set: every block of the composition registry at %d configurations (enumerated); data and register states unbounded' % (3 if tier == 'quick' else 12),
                                      'designs': len(items), 'refused_by_constructor': len(refused)}],
                      trusted_extra=['pvc/vsem.py (Verilog subset semantics)'], canary_ok=work.canary(), min_obligations=50)
