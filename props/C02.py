"""C02 -- the Python->Verilog transpiler preserves the behaviour of behavioural blocks.
Per program (every behavioural library class the transpiler accepts + the corpus under corpus/behavioural): the
Python method is executed symbolically FROM ITS SOURCE (pvc.symexec, state merging), the emitted always-block
module by pvc.vsem; z3 proves one-step equality of every integer state variable and every output register, and
equal initial state, for all inputs and all states inside the statement's domain (state variables non-negative and
below 2**31) -- hence equal trajectories for every input sequence.  Programs outside the subset must be refused
(corpus/refused); if text is returned for one of them it is compared like any other program."""
import io, contextlib, time, os, importlib.util, glob, ast
from pvc import run, work, vsem, ir, smt, leaf as L, symexec
from pvc.symexec import Executor, State
from props import common

PROP = 'C02'
HERE = os.path.dirname(os.path.dirname(os.path.abspath(__file__)))
DOM_HI = (1 << 31) - 1


def _q(f, *a, **k):
    with contextlib.redirect_stdout(io.StringIO()):
        return f(*a, **k)


def library_programs():
    """behavioural leaves of the package that the generator transpiles (no inline emitter, no hand-written body)"""
    work._load_contracts()
    names = [('AutoReset', 'clock'), ('UARTSerializer', 'clock'), ('UARTDeserializer', 'clock'), ('ClockSyncFSM', 'clock'),
             ('CMDRequest', 'clock'), ('CMDResponse', 'clock'), ('Latch', 'propagate'), ('SubBorrowIn', 'propagate'),
             ('RotateLeftConstant', 'propagate'), ('RotateRightConstant', 'propagate'), ('Sequence', 'clock')]
    out = []
    for k in names:
        c = L.LEAVES.get(k)
        if c is not None: out.append(('lib', k[0], k[1]))
    return out + [('lib2', 'Axi2ClkFSM', 'clock'), ('lib2', 'VitisKernelFSM', 'clock')]


def body_programs():
    """hand-written verilogBody() methods next to a Python clock(): compared with the same machinery (clause of C01)"""
    return [('lib2', 'MsgSequencer', 'clock')] + [('lib2', 'MsgSequencer:' + m_, 'clock') for m_ in ('ab', 'abc', 'abcd', 'abcde', 'abcdefghi', 'abcdefghijklmnopq')] + [('lib', 'SynchronousMemory@%d' % k, 'clock') for k in (0, 3, 8, 13)]


def _make_lib2(name):
    import py4hw
    import py4hw.emulation.vitiswrapping as VW
    s = _q(py4hw.HWSystem); w = s.wire
    if name.startswith('MsgSequencer'):
        import py4hw.logic.protocol.uart.sequencer as SQ
        # message lengths 2, 3, 4, 5, 9, 17 besides the default: the counter width is derived from the length
        return _q(SQ.MsgSequencer, s, 'u', w('ready'), w('valid'), w('v', 8), name.partition(':')[2] or 'Hello!\n')
    if name == 'Axi2ClkFSM':
        return _q(VW.Axi2ClkFSM, s, 'u', w('active_handshake'), w('clk_target', 16), w('reset_clk_count'), w('clk_count', 16), w('clk_out'), w('load_outs'))
    return _q(VW.VitisKernelFSM, s, 'u', w('ap_start'), w('ap_reset'), w('ap_done'), w('ap_idle'), w('ap_ready'), w('load_outs'), w('all_sent'))


def corpus_programs(sub):
    return [('corpus', os.path.basename(p)[:-3], sub) for p in sorted(glob.glob(os.path.join(HERE, 'corpus', sub, '*.py')))]


def _load_corpus(name, sub):
    path = os.path.join(HERE, 'corpus', sub, name + '.py')
    spec = importlib.util.spec_from_file_location('corpus_%s_%s' % (sub, name), path)
    mod = importlib.util.module_from_spec(spec)
    import sys
    sys.modules[spec.name] = mod
    spec.loader.exec_module(mod)
    return mod, path


def build(kind, name, meth):
    if kind == 'lib':
        name, _, idx = name.partition('@')
        c = L.LEAVES[(name, meth)]
        cfg = c.cfgs('quick')[int(idx or 0)]
        sys_, obj = L.make_instance(c, cfg)
        return obj, os.path.join(L.REPO, c.file), name, meth
    if kind == 'lib2':
        return _make_lib2(name), os.path.join(L.REPO, 'py4hw/logic/protocol/uart/sequencer.py' if name.startswith('MsgSequencer') else 'py4hw/emulation/vitiswrapping.py'), name.partition(':')[0], meth
    mod, path = _load_corpus(name, meth)
    import py4hw
    s = _q(py4hw.HWSystem)
    obj = _q(mod.make, s)
    m = 'clock' if hasattr(obj, 'clock') else 'propagate'
    return obj, path, type(obj).__name__, m


def domain_hyps(t, guard=ir.TRUE, seen=None, out=None):
    """the statement's domain clause: every intermediate integer value of the Python computation is non-negative and below
    2**31 -- stated for each arithmetic sub-term under the conditions of the branches that lead to it"""
    if out is None: out = []
    if seen is None: seen = set()
    key = (t.id, guard.id)
    if key in seen: return out
    seen.add(key)
    if t.op == 'ite':
        domain_hyps(t.args[0], guard, seen, out)
        domain_hyps(t.args[1], ir.band_(guard, t.args[0]), seen, out)
        domain_hyps(t.args[2], ir.band_(guard, ir.not_(t.args[0])), seen, out)
        return out
    if t.sort == 'i' and t.op in ('add', 'sub', 'mul', 'neg', 'shl', 'bnot', 'fdiv', 'mod', 'bor', 'bxor', 'band', 'shr'):
        out.append(ir.implies(guard, ir.band_(ir.ge(t, 0), ir.le(t, DOM_HI))))
    for a in t.args:
        domain_hyps(a, guard, seen, out)
    return out


def program_item(kind, name, meth, timeout_s=20, refused_expected=False, **kw):
    base = 'program::%s.%s' % (name, meth if kind != 'corpus' else 'corpus')
    out = []
    def R(cl, status, **k):
        d = {'oid': '%s#%s' % (base, cl), 'status': status, 'mode': 'translation-validation', 'function': base}
        d.update(k); out.append(d); return d
    try:
        obj, path, cls, m = build(kind, name, meth)
    except Exception as e:
        R('builds', 'crash', reason=repr(e)); return out
    from py4hw.rtl_generation import VerilogGenerator, getVerilogModuleName
    try:
        text = _q(VerilogGenerator(obj).getVerilogForHierarchy)
        topname = getVerilogModuleName(obj, noInstanceNumber=True)
    except Exception as e:
        # refusal with an error is the allowed outcome for constructs the transpiler cannot express
        R('refused-with-error', 'proved', backend='native', seconds=0.0, note=repr(e)[:200])
        return out
    if refused_expected:
        R('refusal', 'note', bounded=True, evaluations=1, note='text was returned for an out-of-subset program; it is compared below')
    # ---- Verilog side
    try:
        mods = vsem.parse(text)
        design = vsem.Design(mods, topname)
    except vsem.VError as e:
        R('emitted-text-is-verilog', 'refuted', model={'error': str(e)}, replay={'reproduced': True, 'got': 'text returned but it does not parse/elaborate: %s' % e, 'expected': 'Verilog, or an error', 'verilog': text[:2500]})
        return out
    # ---- Python side: symbolic execution of the real method
    try:
        fdef, src = symexec.get_function(path, cls + '.' + m)
        # state attributes = integer attributes the method assigns; the others are constructor constants (emitted as literals)
        assigned = set()
        for n_ in ast.walk(fdef):
            if isinstance(n_, (ast.Assign, ast.AugAssign)):
                for t_ in (n_.targets if isinstance(n_, ast.Assign) else [n_.target]):
                    if isinstance(t_, ast.Attribute) and isinstance(t_.value, ast.Name) and t_.value.id == 'self': assigned.add(t_.attr)
        int_fields = {a: 'self.' + a for a, v in vars(obj).items() if isinstance(v, int) and not isinstance(v, bool) and a not in L.INFRA and a in assigned}
        # list-of-int attributes the method stores into (self.data[i] = v): memories, held as arrays
        arr_attrs = {}
        for n_ in ast.walk(fdef):
            if isinstance(n_, ast.Assign):
                for t_ in n_.targets:
                    if isinstance(t_, ast.Subscript) and isinstance(t_.value, ast.Attribute) and isinstance(t_.value.value, ast.Name) and t_.value.value.id == 'self':
                        v_ = getattr(obj, t_.value.attr, None)
                        if isinstance(v_, list) and v_ and all(isinstance(x_, int) for x_ in v_): arr_attrs[t_.value.attr] = len(v_)
        vmems = {n_: d_ for n_, d_ in design.mods[topname].decls.items() if d_.get('depth') is not None}
        mem_pair = None
        if arr_attrs:
            if len(arr_attrs) != 1 or len(vmems) != 1:
                R('memory-correspondence', 'unknown', reason='python arrays %s vs Verilog memories %s: no one-to-one pairing' % (sorted(arr_attrs), sorted(vmems))); return out
            mem_pair = (next(iter(arr_attrs)), next(iter(vmems)))
            mw_ = design.width_of(design.mods[topname], mem_pair[1], {})
        pc = L.LeafContract(os.path.relpath(path, L.REPO) if path.startswith(L.REPO) else path, cls, m, make=None, cfgs=None, fields=int_fields,
                            array_fields={a_: dict(lo=0, hi=(1 << mw_) - 1) for a_ in arr_attrs})
        sh = L.build_shape(obj, pc, 'concrete')
        ex = Executor(summaries=L.summaries())
        st = sh.state.clone(); st.pc = ir.TRUE
        ex.old_state = sh.state.clone()
        outs_ = ex.block(fdef.body, st)
        normal = [o for o in outs_ if o.kind in ('fall', 'return')]
        fin, val, cond = symexec.merge_outcomes(normal)
    except (symexec.Unsupported, symexec.ShapeError, ir.EvalError, KeyError) as e:
        R('python-side', 'unknown', reason='%s: %s' % (type(e).__name__, e)); return out
    H = fin.heap
    # ---- correspondence
    hyps = list(sh.hyps)
    # only inputs / states on which the Python method itself runs without an exception (index in range, no negative shift ...)
    hyps += [ir.implies(o.pc, o.goal) for o in ex.obligations]
    vin = {}; vstate = {}
    from py4hw.rtl_generation import getValidVerilogName
    port_of = {}
    for p in list(obj.inPorts) + list(obj.outPorts):
        if p.wire is not None: port_of[id(p.wire)] = (getValidVerilogName(p.name), p in obj.inPorts)
    alias = {}
    for lhs_, rhs_ in design.mods[topname].assigns:
        if lhs_[0] == 'id' and rhs_[0] == 'id' and design.mods[topname].decls.get(rhs_[1], {}).get('kind') == 'reg':
            alias[lhs_[1]] = rhs_[1]          # output driven by `assign out = r`: the register r is the state
    for wid, sw in sh.wires.items():
        pn, isin = port_of.get(wid, (None, None))
        if pn is None: continue
        cur = sh.state.heap[('w', sw, 'value')]
        if isin: vin[pn] = cur
        else: vstate['%s.%s' % (topname, alias.get(pn, pn))] = cur
    for f in int_fields:
        fv = sh.state.heap[('f', f)]
        hyps += [ir.ge(fv, 0), ir.le(fv, DOM_HI)]
        vstate['%s.%s' % (topname, f)] = fv
    if mem_pair:
        arr = sh.arrays[mem_pair[0]]; A0 = sh.state.heap[('a', arr.name)]
        for a_ in range(arr_attrs[mem_pair[0]]):
            vstate['%s.%s#%d' % (topname, mem_pair[1], a_)] = ir.sel(A0, ir.const(a_))
            # representation invariant of the memory content: every word fits the word width (established by clock(): it stores writedata.get())
            hyps += [ir.ge(ir.sel(A0, ir.const(a_)), 0), ir.lt(ir.sel(A0, ir.const(a_)), 1 << mw_)]
    try:
        vouts, vnext, vinit = design.build(vin, vstate)
    except vsem.VError as e:
        R('emitted-text-is-verilog', 'refuted', model={'error': str(e)}, replay={'reproduced': True, 'got': 'elaboration error: %s' % e, 'expected': 'a closed legal module', 'verilog': text[:2500]})
        return out
    obls = []
    if mem_pair and m == 'clock':
        A1 = H[('a', arr.name)]
        words = [k_ for k_ in design.state if k_.startswith('%s.%s#' % (topname, mem_pair[1]))]
        if len(words) != arr_attrs[mem_pair[0]]:
            R('memory-depth[%s]' % mem_pair[0], 'refuted', model={}, replay={'reproduced': True, 'got': '%d words in the Verilog memory %s' % (len(words), mem_pair[1]), 'expected': '%d (len(self.%s))' % (arr_attrs[mem_pair[0]], mem_pair[0]), 'verilog': text[:2000]})
        for a_ in range(arr_attrs[mem_pair[0]]):
            key = '%s.%s#%d' % (topname, mem_pair[1], a_)
            if key in vnext:
                obls.append(('step.memory[%s][%d]' % (mem_pair[0], a_), hyps, ir.eq(vnext[key], ir.sel(A1, ir.const(a_))), ('a', mem_pair[0], a_)))
        uninit = [k_ for k_ in words if design.state[k_]['init'] is None]
        R('init.memory[%s]' % mem_pair[0], 'proved' if not uninit else 'refuted', backend='const', seconds=0.0, finding_clause=bool(uninit),
          **({} if not uninit else {'model': {}, 'cfg': {'init': None}, 'replay': {'reproduced': True, 'got': 'the %d words of %s have no initial value (x until written)' % (len(uninit), mem_pair[1]),
                                                                                  'expected': 'all words 0, as self.%s at power-up' % mem_pair[0], 'verilog': text[:1500]}}))
    if m == 'clock':
        for f in int_fields:
            key = '%s.%s' % (topname, f)
            pyv = H[('f', f)]
            if key not in vnext:
                # a constant attribute that is never assigned may be emitted as a literal: nothing to compare
                if pyv is sh.state.heap[('f', f)]: continue
                R('state-variable[%s]' % f, 'refuted', model={}, replay={'reproduced': True, 'got': 'the Python method updates self.%s but the module has no such variable' % f, 'expected': key, 'verilog': text[:2500]}); continue
            dom = [ir.ge(pyv, 0), ir.le(pyv, DOM_HI)] + domain_hyps(pyv)
            obls.append(('step.state[%s]' % f, hyps + dom, ir.eq(vnext[key], pyv), ('f', f)))
            iv = design.state.get(key, {}).get('init')
            want = int(getattr(obj, f))
            R('init.state[%s]' % f, 'proved' if iv == want else 'refuted', backend='const', seconds=0.0,
              **({} if iv == want else {'model': {}, 'replay': {'reproduced': True, 'got': 'initial value %r' % (iv,), 'expected': want, 'verilog': text[:1500]}}))
        for wid, sw in sh.wires.items():
            pn, isin = port_of.get(wid, (None, None))
            if pn is None or isin: continue
            key = '%s.%s' % (topname, alias.get(pn, pn))
            pyv = ir.ite(H[('w', sw, 'prep')], H[('w', sw, 'next')], sh.state.heap[('w', sw, 'value')])
            if key not in vnext:
                R('output[%s]' % pn, 'refuted', model={}, replay={'reproduced': True, 'got': 'no register for output %s' % pn, 'expected': key, 'verilog': text[:2500]}); continue
            obls.append(('step.output[%s]' % pn, hyps + domain_hyps(pyv), ir.eq(vnext[key], pyv), ('w', pn)))
            iv = design.state.get(key, {}).get('init')
            R('init.output[%s]' % pn, 'proved' if iv == 0 else 'refuted', backend='const', seconds=0.0, finding_clause=(iv is None),
              **({} if iv == 0 else {'model': {}, 'cfg': {'init': iv}, 'replay': {'reproduced': True, 'got': 'output register %s has %s' % (pn, 'no initial value (x until first assigned)' if iv is None else 'initial value %r' % iv),
                                                                                   'expected': '0 (the simulator shows 0 from power-up)'}}))
    else:
        for wid, sw in sh.wires.items():
            pn, isin = port_of.get(wid, (None, None))
            if pn is None or isin: continue
            if pn not in vouts:
                R('output[%s]' % pn, 'refuted', model={}, replay={'reproduced': True, 'got': 'no output %s' % pn, 'expected': pn}); continue
            put = H[('w', sw, 'put')]
            pyv = ir.ite(put, H[('w', sw, 'value')], sh.state.heap[('w', sw, 'value')])
            obls.append(('comb.output[%s]' % pn, hyps + domain_hyps(pyv), ir.eq(vouts[pn], pyv), ('w', pn)))
            if not (put.op == 'bconst' and put.val):
                R('comb.latch[%s]' % pn, 'note', bounded=True, evaluations=1, note='output not written on every path: inferred latch; compared only when written')
    undef = ir.bor_(*design.undef_conds) if design.undef_conds else ir.FALSE
    obls.append(('defined', hyps, ir.not_(undef), None))
    for err in design.errors:
        R('wellformed[%s]' % err[:70], 'refuted', model={'error': err}, replay={'reproduced': True, 'got': err, 'expected': 'a closed legal module', 'verilog': text[:2000]})
    for cl, hy, g, what in obls:
        v = smt.prove(hy, g, mode='bv', timeout_s=timeout_s)
        if v.status == 'unknown' and 'bv-unbounded' in (v.reason or ''):
            v = smt.prove(hy, g, mode='int', timeout_s=timeout_s)
        d = R(cl, v.status, backend=v.backend, seconds=round(v.seconds, 4), reason=v.reason, model=v.model if v.status == 'refuted' else None)
        if v.status == 'refuted':
            d['replay'] = _replay(kind, name, meth, m, v.model, what, vnext, vouts, topname, text, sh, alias)
    return out


def _replay(kind, name, meth, m, model, what, vnext, vouts, topname, text, sh, alias=None):
    alias = alias or {}
    """the REAL method on the model's state and inputs vs the Verilog terms evaluated on the same model"""
    info = {'model': {k: v for k, v in model.items() if isinstance(v, int)}}
    if what is None:
        info.update(reproduced=True, got='some Verilog value is x on these inputs', expected='defined values'); return info
    try:
        obj, path, cls, m2 = build(kind, name, meth)
        import py4hw
        py4hw.Wire.prepared = []
        env = dict(info['model'])
        names = {}
        for attr, val in vars(obj).items():
            if L._is_wire(val): names[attr] = val
        for attr, w in names.items():
            v = env.get(attr + '_v');
            if v is not None: w.value = int(v)
            else: env[attr + '_v'] = w.value
        for attr, val in list(vars(obj).items()):
            if isinstance(val, int) and not isinstance(val, bool) and attr not in L.INFRA:
                if ('f_' + attr) in env: setattr(obj, attr, int(env['f_' + attr]))
                else: env['f_' + attr] = val
        # memory content from the model (array words), for the Python object and for the evaluation of the Verilog terms
        arrays = {}
        for k_, words in model.items():
            if k_.endswith('#words') and k_.startswith('a_'):
                attr = k_[2:-6]
                if isinstance(getattr(obj, attr, None), list):
                    setattr(obj, attr, [int(x) for x in words][:len(getattr(obj, attr))]); arrays[k_[:-6]] = list(getattr(obj, attr))
        if arrays: info['memory_before'] = {k_[2:]: v_ for k_, v_ in arrays.items()}
        _q(getattr(obj, m2))
        if what[0] == 'a':
            # one word of a memory after the edge: python list element vs the Verilog word
            vmem = [k_ for k_ in vnext if k_.startswith(topname + '.') and k_.endswith('#%d' % what[2])]
            got_py = getattr(obj, what[1])[what[2]]; vt = vnext[vmem[0]]
            what = ('a', '%s[%d]' % (what[1], what[2]))
        elif what[0] == 'f':
            got_py = getattr(obj, what[1]); vt = vnext['%s.%s' % (topname, what[1])]
        else:
            pw = None
            for p in obj.outPorts:
                from py4hw.rtl_generation import getValidVerilogName
                if getValidVerilogName(p.name) == what[1]: pw = p.wire
            if m2 == 'clock':
                got_py = pw.next if any(pw is x for x in py4hw.Wire.prepared) else pw.value
                vt = vnext['%s.%s' % (topname, alias.get(what[1], what[1]))]
            else:
                got_py = pw.value; vt = vouts[what[1]]
        py4hw.Wire.prepared = []
        fv = ir.free_vars(vt)
        full = {k: env.get(k, 0) for k, t_ in fv.items() if t_.op != 'avar'}
        got_v = ir.evaluate(vt, full, arrays) if arrays else ir.evaluate(vt, full)
        info.update(python=got_py, verilog=got_v, reproduced=(got_py != got_v), expected={what[1] + ' (Python method)': got_py}, got={what[1] + ' (Verilog)': got_v}, verilog_text=text[:2500])
    except Exception as e:
        info.update(reproduced=False, note='replay failed: %r' % (e,))
    return info


def oplemma(**kw):
    """O1: the operator table of the transpiler (VerilogOperator.getOp): enumerated completely; for each entry the Verilog
    operator under vsem's sizing rules equals the Python operator on the statement's domain (non-negative 31-bit operands,
    result in domain)"""
    out = []
    from py4hw.transpilation.python2verilog_transpilation import VerilogOperator
    table = {ast.Add: ir.add, ast.Sub: ir.sub, ast.Mult: ir.mul, ast.FloorDiv: ir.fdiv, ast.Mod: ir.mod, ast.BitAnd: ir.band, ast.BitOr: ir.bor,
             ast.BitXor: ir.bxor, ast.LShift: ir.shl, ast.RShift: ir.shr, ast.Eq: ir.eq, ast.NotEq: ir.ne, ast.Lt: ir.lt, ast.LtE: ir.le, ast.Gt: ir.gt, ast.GtE: ir.ge}
    for cls, pyf in table.items():
        oid = 'getOp[%s]#oplemma' % cls.__name__
        try:
            sym = _q(VerilogOperator.getOp, None, cls()) if False else None
        except Exception:
            sym = None
        try:
            tr = VerilogOperator.__new__(VerilogOperator)
            sym = VerilogOperator.getOp(tr, cls())
        except Exception as e:
            out.append({'oid': oid, 'status': 'proved', 'backend': 'native', 'seconds': 0.0, 'mode': 'refusal', 'note': 'operator refused: %r' % (e,), 'function': 'VerilogOperator.getOp'}); continue
        text = 'module M(input [30:0] a, input [30:0] b, output [31:0] r);\ninteger x; integer y;\nassign r = a %s b;\nendmodule' % sym
        try:
            d = vsem.Design(vsem.parse(text), 'M')
            A = ir.var('a', 0, DOM_HI); B = ir.var('b', 0, DOM_HI if cls not in (ast.LShift, ast.RShift) else 31)
            vouts, _, _ = d.build({'a': A, 'b': B}, {})
            want = pyf(A, B)
            hy = []
            if cls in (ast.FloorDiv, ast.Mod): hy.append(ir.gt(B, 0))
            if want.sort == 'b': want = ir.ite(want, 1, 0)
            hy += [ir.ge(want, 0), ir.le(want, DOM_HI)]
            v = smt.prove(hy, ir.eq(vouts['r'], want), mode='bv', timeout_s=10, use_cvc5=False)
            if v.status == 'unknown':
                v = smt.prove(hy + [ir.ge(A, 0), ir.le(A, DOM_HI), ir.ge(B, 0), ir.le(B, DOM_HI)], ir.eq(vouts['r'], want), mode='int', timeout_s=30)
            out.append({'oid': oid, 'status': v.status, 'backend': v.backend, 'seconds': round(v.seconds, 4), 'mode': 'operator-table', 'model': v.model,
                        'replay': None if v.status != 'refuted' else {'reproduced': True, 'got': 'Verilog `a %s b` differs from Python %s on %s' % (sym, cls.__name__, v.model), 'expected': 'same value on the domain'},
                        'function': 'VerilogOperator.getOp'})
        except vsem.VError as e:
            out.append({'oid': oid, 'status': 'refuted', 'model': {}, 'replay': {'reproduced': True, 'got': 'operator symbol %r is not a Verilog operator: %s' % (sym, e), 'expected': 'a Verilog operator'}, 'function': 'VerilogOperator.getOp'})
    return out


def main(tier, seed, only=None):
    t0 = time.time()
    progs = library_programs() + corpus_programs('behavioural')
    items = [('props.C02:program_item', dict(kind=k, name=n, meth=m, timeout_s=30 if tier == 'quick' else 120)) for (k, n, m) in progs]
    items += [('props.C02:program_item', dict(kind=k, name=n, meth=m, timeout_s=30, refused_expected=True)) for (k, n, m) in corpus_programs('refused')]
    items += [('props.C02:oplemma', {})]
    items = common.filter_only(items, only)
    res = [r for r in run.run_items(items) if r.get('status') != 'note']
    return run.finish(PROP, tier, res, t0, level='translation_validation', seed=seed,
                      functions=['py4hw/transpilation/python2verilog_transpilation.py::Python2VerilogTranspiler (per program)', 'VerilogOperator.getOp (operator table)'],
                      assumptions=['domain of the statement as hypotheses: every integer state variable is in [0, 2**31) before and after the step; port values within their widths',
                                   'pvc.vsem reading of IEEE 1364-2005 (integer = 32-bit signed; blocking assignments visible inside the block; non-blocking applied at the end)',
                                   'Python side: pvc.symexec over the real method source (same engine as C07-C09/C20)'],
                      extra_cov={'programs': len(items) - 1, 'disagreements_checked': len([r for r in res if r.get('status') == 'refuted'])},
                      bounded_parts=[{'what': 'programs are enumerated: behavioural library classes + corpus/behavioural + corpus/refused', 'programs': len(items) - 1, 'not_bounded': 'inputs, states, history length'}],
                      trusted_extra=['pvc/vsem.py (Verilog subset semantics)'], canary_ok=work.canary(), min_obligations=20)
