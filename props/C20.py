"""C20 -- HIL UART command codec.  CMDRequest.clock / CMDResponse.clock are symbolically executed from the real
source (unbounded integer fields, symbolic widths, arbitrary handshake inputs at every step) and proved against
the one-step transition table of the protocol: hexadecimal accumulation temp' = 16*temp + digit, strobes with
index/value == temp, the K countdown (one pulse per decrement, none at 0), response characters '=', upper-case
hex digits most significant nibble first, '!', each held with valid until a cycle with ready.  The sequence-level
reading (each command -> exactly one pulse with the transmitted number) follows from the table by induction over
the characters; it is additionally exercised end to end by a bounded companion on the real blocks."""
import io, contextlib, random, time
from pvc import run, work, leaf as L
from props import common

PROP = 'C20'


def _q(f, *a):
    with contextlib.redirect_stdout(io.StringIO()):
        return f(*a)


def e2e(seed=0, n=40, **kw):
    """bounded companion: random well-formed command streams / responses under random pacing on the real blocks,
    against a reference parser / formatter written from the statement"""
    import py4hw
    import py4hw.emulation.HILWrapperUART as hil
    rnd = random.Random(seed)
    fails = []; evals = 0

    def run_req(stream, valid_p):
        s = py4hw.HWSystem(); w = s.wire
        ready = w('ready'); valid = w('valid'); c = w('c', 8); ii = w('ii', 64); vi = w('vi', 64); io_ = w('io', 64)
        sii = w('sii'); svi = w('svi'); sio = w('sio'); cp = w('cp'); sr = w('sr')
        hil.CMDRequest(s, 'req', ready, valid, c, ii, vi, io_, sii, svi, sio, cp, sr); sim = s.getSimulator()
        ev = []; idx = 0; prev = dict(sii=0, svi=0, sio=0, cp=0, sr=0); idle = 0
        for t in range(len(stream) * 14 + 6000):
            if idx < len(stream) and rnd.random() < valid_p:
                valid.put(1); c.put(ord(stream[idx]))
            else:
                valid.put(0)
            sim.propagateAll()
            acc = valid.get() and ready.get()
            sim.clk(1)
            if acc: idx += 1
            cur = dict(sii=sii.get(), svi=svi.get(), sio=sio.get(), cp=cp.get(), sr=sr.get())
            for k in cur:
                if cur[k] and not prev[k]:
                    ev.append((k, {'sii': ii.get(), 'svi': vi.get(), 'sio': io_.get()}.get(k)))
            prev = cur
            if idx >= len(stream): idle += 1
            if idle > 40 and not cur['cp']:
                if idle > 40 + 2 * 300: break
        return ev

    def ref(cmds):
        ev = []
        for kind, num in cmds:
            if kind == 'I': ev.append(('sii', num))
            elif kind == 'V': ev.append(('svi', num))
            elif kind == 'O': ev += [('sio', num), ('sr', None)]
            elif kind == 'K': ev += [('cp', None)] * num
        return ev

    def run_resp(value, size, ready_p):
        s = py4hw.HWSystem(); w = s.wire
        vin = w('vin', 64); sz = w('size', 8); sr = w('sr'); ready = w('ready'); valid = w('valid'); v = w('v', 8)
        hil.CMDResponse(s, 'resp', vin, sz, sr, ready, valid, v); sim = s.getSimulator()
        out = []
        vin.put(value); sz.put(size); sr.put(1); ready.put(0); sim.clk(1); sr.put(0)
        for t in range(60 * size + 400):
            ready.put(int(rnd.random() < ready_p)); sim.propagateAll()
            if valid.get() and ready.get(): out.append(chr(v.get()))
            sim.clk(1)
        return ''.join(out)

    for it in range(n):
        cmds = []; text = ''
        for k in range(rnd.randint(1, 6)):
            kind = rnd.choice('IVOK')
            num = rnd.choice([0, 1, 9, 10, 15, 16, 255, 0xBEEF, rnd.getrandbits(rnd.choice([4, 8, 16, 32, 60]))])
            if kind == 'K': num = rnd.choice([0, 1, 2, 5, 17])
            hexs = '%X' % num
            if rnd.random() < 0.3: hexs = '0' * rnd.randint(1, 3) + hexs
            text += {'I': 'I%s=', 'V': '%s!', 'O': 'O%s?', 'K': 'K%s;'}[kind] % hexs
            cmds.append((kind, num))
        p = rnd.choice([1.0, 0.7, 0.3])
        try:
            got = _q(run_req, text, p)
        except Exception as e:
            got = 'raises %r' % (e,)
        evals += 1
        if got != ref(cmds):
            fails.append({'stream': text, 'pacing': p, 'expected': ref(cmds), 'got': got}); break
        size = rnd.randint(1, 16); value = rnd.getrandbits(4 * size) if rnd.random() < 0.8 else rnd.getrandbits(64)
        p = rnd.choice([1.0, 0.5, 0.2])
        want = '=' + ('%0*X' % (size, value & ((1 << (4 * size)) - 1))) + '!'
        try:
            got = _q(run_resp, value, size, p)
        except Exception as e:
            got = 'raises %r' % (e,)
        evals += 1
        if got != want:
            fails.append({'value': value, 'size': size, 'pacing': p, 'expected': want, 'got': got}); break
    if fails:
        return [{'oid': 'e2e::HIL-codec#bounded', 'status': 'bounded-fail', 'bounded': True, 'evaluations': evals, 'model': fails[0],
                 'replay': {'reproduced': True, 'expected': fails[0].get('expected'), 'got': fails[0].get('got'), 'case': fails[0]}, 'function': 'CMDRequest+CMDResponse end to end'}]
    return [{'oid': 'e2e::HIL-codec#bounded', 'status': 'bounded-ok', 'bounded': True, 'evaluations': evals, 'function': 'CMDRequest+CMDResponse end to end'}]


def main(tier, seed, only=None):
    t0 = time.time()
    work._load_contracts()
    leaves = [('CMDRequest', 'clock'), ('CMDResponse', 'clock')]
    n = 40 if tier == 'quick' else 400
    items = common.leaf_items(leaves, tier, seed, timeout_s=30) + [('props.C20:e2e', dict(seed=seed * 16 + k, n=n // 8)) for k in range(8)]
    items = common.filter_only(items, only)
    res = run.run_items(items)
    return run.finish(PROP, tier, res, t0, level='proof', functions=[L.LEAVES[k].qual for k in leaves], seed=seed,
                      assumptions=common.STD_ASSUMPTIONS + [common.dropped_note(),
                          'requires: temp >= 0 (established by the table itself: ensures), CMDResponse: size >= 1 when a response starts (size == 0 asks for a negative shift; outside the statement)',
                          'the sequence-level clauses follow from the one-step table by induction over the received characters / handshakes (meta-step); the bounded companion exercises them end to end'],
                      bounded_parts=[{'what': 'end-to-end companion: random well-formed command streams (1-6 commands, numbers up to 60 bits, leading zeros, K up to 17) and responses (1-16 digits) under random pacing on the real blocks',
                                      'cases': n, 'not_bounded': 'nothing -- this part is a sample; the proof part is unbounded'}],
                      canary_ok=work.canary(), min_obligations=100)
