"""./check front end"""
import sys, os, argparse, importlib, json, time


def main():
    ap = argparse.ArgumentParser()
    ap.add_argument('what')
    ap.add_argument('--tier', default=os.environ.get('VERIF_TIER', 'quick'))
    ap.add_argument('--replay', default=None)
    ap.add_argument('--only', default=None, help='restrict to functions/blocks matching this substring')
    a = ap.parse_args()
    seed = int(os.environ.get('VERIF_SEED', '0') or 0)
    if a.what == 'setup':
        import z3, lark, jsonschema, py4hw
        print('setup ok: z3', z3.get_version_string(), 'py4hw from', os.path.dirname(py4hw.__file__))
        return 0
    if a.what == 'baseline':
        from pvc import baseline
        return baseline.main(a.tier)
    if a.what == 'selftest':
        from pvc import selftest
        return selftest.main(a.tier)
    prop = a.what.upper()
    if a.only: os.environ['PVC_ONLY_FILTER'] = a.only
    mod = importlib.import_module('props.' + prop)
    if a.replay:
        return mod.replay(a.replay) if hasattr(mod, 'replay') else generic_replay(a.replay)
    try:
        return mod.main(a.tier, seed, only=a.only)
    except SystemExit:
        raise
    except Exception:
        import traceback
        traceback.print_exc()
        print('CHECKER-CRASH in %s' % prop)
        return 3


def generic_replay(path):
    d = json.load(open(path))
    print(json.dumps({k: d.get(k) for k in ('property', 'obligation', 'cfg', 'model', 'replay')}, indent=1, default=str))
    from pvc import replaycli
    return replaycli.rerun(d)


if __name__ == '__main__':
    sys.exit(main())
