"""./check baseline -- (re)writes baseline_obligations.json from the current evidence: ids of all obligations discharged on
the pinned tree.  Run by hand on the unchanged tree only; never at check time."""
import json, os, sys, subprocess
HERE = os.path.dirname(os.path.dirname(os.path.abspath(__file__)))


def stable(oid):
    """ids that do not depend on line offsets inside a function"""
    return '@L' not in oid and '#bounded' not in oid


def main(tier='quick'):
    man = json.load(open(os.path.join(HERE, 'MANIFEST.json')))
    base = {}
    try:
        prev = json.load(open(os.path.join(HERE, 'baseline_obligations.json')))
    except Exception:
        prev = {}
    for c in man['checks']:
        p = c['property_id']
        env = dict(os.environ, PVC_BASELINE='1', VERIF_SEED='0', PVC_DUMP_PROVED=os.path.join(HERE, '.proved_%s.json' % p))
        r = subprocess.run([os.path.join(HERE, 'check'), p, '--tier', tier], capture_output=True, text=True, env=env, cwd=HERE)
        f = env['PVC_DUMP_PROVED']
        if os.path.exists(f):
            ids = json.load(open(f)); os.unlink(f)
            # enforced later: obligations discharged in under 5 s here (margin against a loaded machine; the budgets are 10 s and more),
            # plus those already enforced before that still discharge in under 15 s (a slow moment while regenerating does not
            # silently drop an obligation, a genuinely slow one is not enforced)
            base[p] = {i: {'tier': tier} for i, secs in ids.items() if stable(i) and (secs < 5.0 or (secs < 15.0 and i in prev.get(p, {})))}
        print(p, 'exit', r.returncode, len(base.get(p, {})), 'stable obligations')
    json.dump(base, open(os.path.join(HERE, 'baseline_obligations.json'), 'w'), indent=0, sort_keys=True)
    return 0
