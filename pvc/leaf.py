"""pvc.leaf -- leaf (primitive) contracts: registry, shapes built by reflecting a real instance,
VC generation for propagate()/clock() against the abstract leaf contract (L1 frame) and the
functional postcondition, and native replay of counter-models on the real object.
"""
import ast, io, contextlib, os, time, traceback
from . import ir, symexec, smt
from .symexec import SymWire, SymList, SymArray, Opaque, SelfRef, State, Executor, Unsupported, ShapeError

REPO = os.environ.get('PVC_REPO', '/repo')

INFRA = {'parent', 'name', 'inPorts', 'outPorts', 'inOutPorts', 'sources', 'sinks', 'children',
         'clockDriver', '_wires', 'parameters'}

LEAVES = {}       # (file, cls, meth) -> LeafContract
FUNCS = {}        # qualified name -> FuncContract


def quiet(f, *a, **k):
    with contextlib.redirect_stdout(io.StringIO()):
        return f(*a, **k)


class LeafContract:
    def __init__(self, file, cls, meth, make, cfgs, kind=None, symbolic=None, requires=None,
                 out=None, nxt=None, fields=None, arrays=None, ensures=None, partial=False,
                 invariants=None, prepared=None, array_fields=None, stateful_reads=False,
                 props=(), notes='', raw_out=None, concrete_keys=(), rand=None, shape_key=None, appends=None, returns=None, args=None):
        self.appends = appends; self.returns = returns; self.args = args or []
        self.shape_key = shape_key
        self.file = file; self.cls = cls; self.meth = meth
        self.make = make                  # make(sys, cfg) -> real instance
        self.cfgs = cfgs                  # callable(tier) -> list of cfg dicts (concrete grid)
        self.kind = kind or ('clock' if meth == 'clock' else 'propagate')
        self.symbolic = symbolic or {}    # cfg key -> 'width' | 'param' | 'field'  (symbolic in parametric mode)
        self.requires = requires or []    # list of contract expressions
        self.out = out if out is not None else {}              # wire attr -> integer expression over the pre-state
        self.nxt = nxt or {}              # wire attr -> expression (value prepared)
        self.prepared = prepared or {}    # wire attr -> condition under which it is prepared (default True)
        self.fields = fields or {}        # field -> expression for the post value
        self.arrays = arrays or {}        # array field -> (index expr, value expr, condition expr)
        self.array_fields = array_fields or {}   # array field -> dict(length=expr, lo=, hi=)
        self.ensures = ensures or []
        self.partial = partial            # outputs not necessarily written on every call (stateful leaf)
        self.invariants = invariants or {}
        self.stateful_reads = stateful_reads
        self.props = props
        self.notes = notes
        self.concrete_keys = concrete_keys
        self.rand = rand

    @property
    def qual(self):
        return '%s::%s.%s' % (self.file, self.cls, self.meth)

    def resolved(self, obj):
        """contracts whose clauses depend on the structural shape (list arity) give them as callables"""
        if not any(callable(x) for x in (self.out, self.nxt, self.fields, self.ensures, self.requires)):
            return self
        import copy
        r = copy.copy(self)
        for k in ('out', 'nxt', 'fields', 'ensures', 'requires'):
            v = getattr(self, k)
            if callable(v): setattr(r, k, v(obj))
        return r


def leaf(file, cls, meth, **kw):
    c = LeafContract(file, cls, meth, **kw)
    LEAVES[(cls, meth)] = c
    return c


class FuncContract:
    def __init__(self, file, qual, args, requires=None, result=None, ensures=None, invariants=None,
                 ranges=None, summary_name=None, samples=None, native=None):
        self.file = file; self.qual = qual; self.args = args
        self.requires = requires or []
        self.result = result              # expression over args for the returned value
        self.ensures = ensures or []      # predicates over args and `result`
        self.invariants = invariants or {}
        self.ranges = ranges or {}
        self.summary_name = summary_name or qual
        self.samples = samples
        self.native = native


def func(file, qual, args, **kw):
    c = FuncContract(file, qual, args, **kw)
    FUNCS[c.summary_name] = c
    return c


def summaries():
    """callee contracts as call-site summaries (modular verification: callers see contracts only)"""
    out = {}
    for name, c in FUNCS.items():
        if c.result is None:
            continue
        def mk(c):
            def req(*a):
                ex = Executor(); st = State()
                for k, v in zip(c.args, a): st.loc[k] = v
                return ir.band_(*[ex.truth(ex.eval_spec(r, st)) for r in c.requires]) if c.requires else ir.TRUE
            def res(*a):
                ex = Executor(); st = State()
                for k, v in zip(c.args, a): st.loc[k] = v
                return ex.eval_spec(c.result, st)
            return {'name': c.qual, 'requires': req, 'result': res}
        out[name] = mk(c)
    return out


# ----------------------------------------------------------------------------------------------
class Shape:
    def __init__(self):
        self.selfref = None
        self.state = State()
        self.hyps = []
        self.wires = {}       # id(real wire) -> SymWire
        self.by_attr = {}     # attr -> SymWire | SymList
        self.outputs = []     # SymWires driven by this leaf
        self.inputs = []
        self.fields = {}      # attr -> term
        self.params = {}
        self.arrays = {}
        self.obj = None
        self.sym_names = {}   # model variable name -> ('width', attr) etc.


def _is_wire(x):
    return type(x).__name__ in ('Wire', 'BidirWire') or hasattr(x, 'getWidth') and hasattr(x, 'put')


def build_shape(obj, contract=None, mode='concrete', prefix='', wire_values=None, field_values=None,
                array_values=None):
    """Reflect a live instance into a symbolic shape.
    mode 'param'   : widths / declared params symbolic (Int mode)
         'concrete': widths as built; values symbolic with declared ranges (BV mode) unless given"""
    sh = Shape(); sh.obj = obj
    st = sh.state
    symbolic = (contract.symbolic if contract is not None and mode == 'param' else {})
    outs = set(id(p.wire) for p in getattr(obj, 'outPorts', []) if p.wire is not None)
    outs |= set(id(p.wire) for p in getattr(obj, 'inOutPorts', []) if p.wire is not None)
    methods = [m for m in dir(type(obj)) if callable(getattr(type(obj), m, None))]
    sh.selfref = SelfRef(methods)
    sym_width_of = {}

    def mkwire(w, attr):
        if id(w) in sh.wires:
            return sh.wires[id(w)]
        nm = prefix + attr
        if mode == 'param' and symbolic.get(attr) == 'width' or (mode == 'param' and symbolic.get(attr.split('[')[0]) == 'widths'):
            wt = ir.var(nm + '_w')
            sh.hyps.append(ir.ge(wt, 1))
            sh.sym_names[nm + '_w'] = ('width', attr)
        else:
            wt = ir.const(w.getWidth())
        sw = SymWire(nm, wt, is_output=id(w) in outs, kind=type(w).__name__)
        sh.wires[id(w)] = sw
        if wire_values is not None and id(w) in wire_values:
            val = wire_values[id(w)]
        elif ir.is_const(wt):
            val = ir.var(nm + '_v', 0, (1 << wt.val) - 1)
        else:
            val = ir.var(nm + '_v')
            sh.hyps.append(ir.band_(ir.ge(val, 0), ir.lt(val, ir.pow2(wt))))
        sh.sym_names[nm + '_v'] = ('value', attr)
        st.heap[('w', sw, 'value')] = val
        st.heap[('w', sw, 'put')] = ir.FALSE
        st.heap[('w', sw, 'prep')] = ir.FALSE
        st.heap[('w', sw, 'nprep')] = ir.const(0)
        st.heap[('w', sw, 'next')] = ir.var(nm + '_oldnext')
        (sh.outputs if sw.is_output else sh.inputs).append(sw)
        return sw

    for attr, val in vars(obj).items():
        if attr in INFRA:
            continue
        if _is_wire(val):
            sw = mkwire(val, attr)
            st.heap[('f', attr)] = sw; sh.by_attr[attr] = sw
        elif val is None:
            st.heap[('f', attr)] = None
        elif isinstance(val, bool):
            st.heap[('f', attr)] = ir.bconst(val); sh.fields[attr] = st.heap[('f', attr)]
        elif isinstance(val, int):
            if field_values is not None and attr in field_values:
                t = field_values[attr]
            elif symbolic.get(attr) == 'field' or (contract is not None and attr in getattr(contract, 'state_fields', ())):
                t = ir.var(prefix + 'f_' + attr); sh.sym_names[prefix + 'f_' + attr] = ('field', attr)
            elif contract is not None and attr in contract.fields and mode != 'const':
                # mutable state of the leaf: symbolic (any reachable value), range from contract if declared
                rng = (contract.array_fields.get('__field_ranges__') or {}).get(attr)
                if rng is not None and not isinstance(rng, str):
                    t = ir.var(prefix + 'f_' + attr, rng[0], rng[1])
                else:
                    t = ir.var(prefix + 'f_' + attr)
                sh.sym_names[prefix + 'f_' + attr] = ('field', attr)
            else:
                t = ir.const(val)
            st.heap[('f', attr)] = t; sh.fields[attr] = t
        elif isinstance(val, (list, tuple)) and val and all(_is_wire(x) for x in val):
            items = [mkwire(x, '%s[%d]' % (attr, i)) for i, x in enumerate(val)]
            sl = SymList(items, attr); st.heap[('f', attr)] = sl; sh.by_attr[attr] = sl
        elif isinstance(val, list) and contract is not None and attr in contract.array_fields:
            info = contract.array_fields[attr]
            nm = prefix + 'a_' + attr
            arr = SymArray(nm, ir.const(len(val)))
            smt.declare_array(nm, len(val), info.get('lo', 0), info.get('hi'))
            st.heap[('f', attr)] = arr
            st.heap[('a', nm)] = (array_values or {}).get(attr, ir.avar(nm))
            sh.arrays[attr] = arr
        elif isinstance(val, (list, tuple)) and all(isinstance(x, int) for x in val):
            st.heap[('f', attr)] = SymList([ir.const(int(x)) for x in val], attr)
        elif isinstance(val, str):
            st.heap[('f', attr)] = val
        else:
            st.heap[('f', attr)] = Opaque('%s:%s' % (attr, type(val).__name__))
    for k, v in (getattr(obj, 'parameters', None) or {}).items():
        if isinstance(v, int):
            if symbolic.get(k) == 'param':
                t = ir.var(prefix + 'p_' + k); sh.sym_names[prefix + 'p_' + k] = ('param', k)
            else:
                t = ir.const(v)
            st.heap[('p', k)] = t; sh.params[k] = t
    st.loc['self'] = sh.selfref
    return sh


# ----------------------------------------------------------------------------------------------
class Result:
    def __init__(self, oid, verdict, detail=None, hyps=None, goal=None, cfg=None, contract=None, mode=None):
        self.oid = oid; self.verdict = verdict; self.detail = detail or {}
        self.hyps = hyps; self.goal = goal; self.cfg = cfg; self.contract = contract; self.mode = mode

    @property
    def status(self):
        return self.verdict.status


def new_system():
    import py4hw
    return quiet(py4hw.HWSystem)


def _spec_hyps(ex, c, sh):
    hy = list(sh.hyps)
    for r in c.requires:
        hy.append(ex.truth(ex.eval_spec(r, sh.state)))
    return hy


def gen_leaf_obligations(c, obj, mode, summ=None):
    """symbolically execute the real method of the live instance `obj`; return (obligations, meta)
    where obligations = [(clause id, hyps, goal)]"""
    path = os.path.join(REPO, c.file)
    fdef, src = symexec.get_function(path, c.cls + '.' + c.meth)
    sh = build_shape(obj, c, mode)
    c = c.resolved(obj)
    ex = Executor(summaries=summ if summ is not None else summaries(), loop_invariants=c.invariants)
    old = sh.state.clone()
    ex.old_state = old
    for a in c.args:
        old.loc[a] = sh.state.loc[a] = ir.var('arg_' + a)
    hy = _spec_hyps(ex, c, sh)
    st = sh.state.clone()
    st.pc = ir.TRUE
    import py4hw as _p
    ex.globals.setdefault('Wire', symexec.Namespace({'prepared': symexec.SymSeq('Wire.prepared')}))
    outs = ex.block(fdef.body, st)
    normal = [o for o in outs if o.kind in ('fall', 'return')]
    raises = [o for o in outs if o.kind == 'raise']
    obls = []
    hy = hy + ex.assumptions
    for o in ex.obligations:
        obls.append(('%s@L%s%s' % (o.kind, (o.lineno or 0) - fdef.lineno, '' ), hy + [o.pc], o.goal))
    for o in raises:
        obls.append(('no_raise@L%s' % ((o.lineno or 0) - fdef.lineno), hy, ir.not_(o.state.pc)))
    fin, val, cond = symexec.merge_outcomes(normal)
    meta = {'dropped': ex.dropped, 'source_lines': len(src.splitlines()), 'shape': sh, 'final': fin, 'ex': ex}
    if fin is None:
        obls.append(('terminates_normally', hy, ir.FALSE))
        return obls, meta
    H = fin.heap

    def spec(e, extra=None):
        return ex.eval_spec(e, old, extra)

    # ---- abstract leaf contract (L1 frame)
    allw = list(sh.wires.values())
    if c.kind == 'method':
        for f in sh.fields:
            if ('fw', f) in H and f not in c.fields:
                obls.append(('frame.field_unchanged[%s]' % f, hy, ir.eq(H[('f', f)], old.heap[('f', f)])
                             if isinstance(H[('f', f)], ir.T) else ir.FALSE))
        for k in H:
            if k[0] == 'fw' and k[1] not in sh.fields and k[1] not in c.fields:
                obls.append(('frame.no_new_field[%s]' % k[1], hy, ir.FALSE))
        want_app = c.appends or []
        got = ex.seq_appends
        obls.append(('post.appends.count', hy, ir.bconst(len(got) == len(want_app))))
        for (nm, aval, pc_), (wnm, wval) in zip(got, want_app):
            okv = (aval is sh.selfref) if wval == 'self' else False
            obls.append(('post.appends[%s]' % wnm, hy, ir.band_(ir.bconst(nm == wnm and okv), pc_)))
        if c.returns is not None:
            obls.append(('post.result', hy, ir.eq(ir.as_int(val), ir.as_int(spec(c.returns)))) if val is not None else ('post.result', hy, ir.FALSE))
    elif c.kind == 'propagate':
        for w in allw:
            if not w.is_output:
                obls.append(('frame.no_put_on_input[%s]' % w.name, hy, ir.not_(H[('w', w, 'put')])))
            obls.append(('frame.no_prepare[%s]' % w.name, hy, ir.not_(H[('w', w, 'prep')])))
            if w.is_output and not c.partial:
                obls.append(('frame.writes_every_output[%s]' % w.name, hy, H[('w', w, 'put')]))
        if not c.stateful_reads:
            bad = [w.name for w in ex.reads if w.is_output and w not in sh.inputs]
            obls.append(('frame.reads_only_inputs', hy, ir.bconst(not bad)))
        for f in sh.fields:
            if ('fw', f) in H and f not in c.fields:
                obls.append(('frame.field_unchanged[%s]' % f, hy, ir.eq(H[('f', f)], old.heap[('f', f)])
                             if isinstance(H[('f', f)], ir.T) else ir.FALSE))
    else:
        for w in allw:
            obls.append(('frame.clock_never_stores_value[%s]' % w.name, hy, ir.not_(H[('w', w, 'put')])))
            if not w.is_output:
                obls.append(('frame.no_prepare_on_input[%s]' % w.name, hy, ir.not_(H[('w', w, 'prep')])))
            else:
                obls.append(('frame.prepared_at_most_once[%s]' % w.name, hy, ir.le(H[('w', w, 'nprep')], 1)))
        for f in sh.fields:
            if ('fw', f) in H and f not in c.fields:
                obls.append(('frame.field_unchanged[%s]' % f, hy, ir.eq(H[('f', f)], old.heap[('f', f)])
                             if isinstance(H[('f', f)], ir.T) else ir.FALSE))
    if c.kind != 'method':
        # a store into an attribute that is not part of the contract's state (a non-integer attribute the constructor set, or a new
        # one): a value kept there changes later behaviour in ways a one-step contract from the reflected state cannot see
        for k in H:
            if k[0] == 'fw' and k[1] not in sh.fields and k[1] not in c.fields and k[1] not in sh.arrays:
                obls.append(('frame.state_outside_contract[%s]' % k[1], hy, ir.FALSE))
    for a, arr in sh.arrays.items():
        if a not in c.arrays:
            obls.append(('frame.array_unchanged[%s]' % a, hy, ir.aeq(H[('a', arr.name)], old.heap[('a', arr.name)])))
    # ---- functional postcondition
    newns = {}
    for f, e in c.fields.items():
        want = spec(e)
        newns[f] = want
        got = H[('f', f)]
        obls.append(('post.field[%s]' % f, hy, ir.eq(got, want)))
    extra = {'new': symexec.Namespace(newns)}
    for a, (ie, ve, ce) in c.arrays.items():
        arr = sh.arrays[a]
        cnd = ex.truth(spec(ce, extra))
        want = ir.ite(cnd, ir.store(old.heap[('a', arr.name)], spec(ie, extra), spec(ve, extra)), old.heap[('a', arr.name)])
        obls.append(('post.array[%s]' % a, hy, ir.aeq(H[('a', arr.name)], want)))
    for k, e in c.out.items():
        w = _wire_of(sh, k)
        want = ir.M(ir.as_int(spec(e, extra)), w.width)
        obls.append(('post.out[%s]' % k, hy, ir.eq(H[('w', w, 'value')], want)))
        obls.append(('inv_wire[%s]' % k, hy, ir.band_(ir.ge(H[('w', w, 'value')], 0), ir.lt(H[('w', w, 'value')], ir.pow2(w.width)))))
    for k, e in c.nxt.items():
        w = _wire_of(sh, k)
        pc_ = ex.truth(spec(c.prepared.get(k, 'True'), extra))
        want = ir.M(ir.as_int(spec(e, extra)), w.width)
        obls.append(('post.prepared_iff[%s]' % k, hy, ir.iff(H[('w', w, 'prep')], pc_)))
        obls.append(('post.next[%s]' % k, hy, ir.implies(pc_, ir.eq(H[('w', w, 'next')], want))))
        obls.append(('inv_wire.next[%s]' % k, hy, ir.implies(pc_, ir.band_(ir.ge(H[('w', w, 'next')], 0), ir.lt(H[('w', w, 'next')], ir.pow2(w.width))))))
    if c.kind == 'clock':
        for w in sh.outputs:
            nm = _attr_of(sh, w)
            if nm not in c.nxt:
                obls.append(('post.not_prepared[%s]' % w.name, hy, ir.not_(H[('w', w, 'prep')])))
    else:
        for w in sh.outputs:
            nm = _attr_of(sh, w)
            if nm not in c.out and not c.partial:
                obls.append(('post.unspecified_output[%s]' % w.name, hy, ir.FALSE))
    if c.ensures:
        # general predicates: evaluated in the final state with old() available
        fin2 = fin.clone(); fin2.loc = dict(old.loc)
        for i, e in enumerate(c.ensures):
            obls.append(('post.ensures[%d]' % i, hy, ex.truth(ex.eval_spec(e, fin2, extra))))
    meta['hyps'] = hy
    return obls, meta


def _wire_of(sh, key):
    if '[' in key:
        a, i = key[:-1].split('['); return sh.by_attr[a].items[int(i)]
    return sh.by_attr[key]


def _attr_of(sh, w):
    for a, x in sh.by_attr.items():
        if x is w: return a
        if isinstance(x, SymList):
            for i, it in enumerate(x.items):
                if it is w: return '%s[%d]' % (a, i)
    return w.name


def make_instance(c, cfg):
    sys_ = new_system()
    obj = quiet(c.make, sys_, dict(cfg))
    return sys_, obj


def verify_leaf(c, tier='quick', timeout_s=10, force_concrete=False, summ=None):
    """returns list of Result.  Per structural shape (optional ports present or not, list arity, values of
    the non-symbolic configuration keys): parametric Int-mode proof first when the contract declares
    symbolic keys; every obligation left open there is retried on the concrete grid in BV mode."""
    results = []
    cfgs = c.cfgs(tier)
    groups = {}
    for cfg in cfgs:
        if c.shape_key is not None:
            key = c.shape_key(cfg)
        else:
            key = tuple(sorted((k, str(v)) for k, v in cfg.items() if k not in c.symbolic))
        groups.setdefault(key, []).append(cfg)
    for key, group in groups.items():
        todo = None
        ktag = ('{%s}' % ','.join('%s=%s' % kv for kv in key)) if key and not isinstance(key[0], (bool, int, str)) else ('{%s}' % (key,) if key else '')
        if c.symbolic and not force_concrete:
            cfg = None
            for cand in group:
                try:
                    sys_, obj = make_instance(c, cand); cfg = cand; break
                except Exception:
                    continue
            if cfg is None:
                continue          # constructor refuses every configuration of this shape
            try:
                obls, meta = gen_leaf_obligations(c, obj, 'param', summ)
            except (Unsupported, ShapeError, ir.EvalError) as e:
                results.append(Result('%s#undecided%s' % (c.qual, ktag), smt.Verdict('unknown', 'none', 0, reason='%s: %s' % (type(e).__name__, e)),
                                      {'exception': type(e).__name__}, cfg=cfg, contract=c, mode='param'))
                if isinstance(e, ShapeError):
                    results[-1].detail['shape_error'] = str(e)
                continue
            todo = []
            for (cl, hy, goal) in obls:
                v = smt.prove(hy, goal, mode='int', timeout_s=timeout_s)
                if v.status == 'proved':
                    results.append(Result('%s#%s%s' % (c.qual, cl, ktag), v, {'mode': 'parametric'}, hy, goal, cfg, c, 'param'))
                else:
                    todo.append(cl)
            if not todo:
                continue
        for cfg in group:
            tag = ','.join('%s=%s' % kv for kv in sorted(cfg.items()))
            try:
                sys_, obj = make_instance(c, cfg)
            except Exception:
                continue      # the constructor refuses this configuration: not a legal configuration
            try:
                obls, meta = gen_leaf_obligations(c, obj, 'concrete', summ)
            except (Unsupported, ShapeError, ir.EvalError) as e:
                results.append(Result('%s#undecided@%s' % (c.qual, tag), smt.Verdict('unknown', 'none', 0, reason='%s: %s' % (type(e).__name__, e)),
                                      {'exception': type(e).__name__}, cfg=cfg, contract=c, mode='concrete'))
                if isinstance(e, ShapeError):
                    results[-1].detail['shape_error'] = str(e)
                continue
            for (cl, hy, goal) in obls:
                if todo is not None and cl not in todo:
                    continue
                v = smt.prove(hy, goal, mode='bv', timeout_s=timeout_s)
                if v.status == 'unknown' and 'bv-unbounded' in (v.reason or ''):
                    v = smt.prove(hy, goal, mode='int', timeout_s=timeout_s)
                results.append(Result('%s#%s@%s' % (c.qual, cl, tag), v, {'mode': 'width-grid'}, hy, goal, cfg, c, 'concrete'))
    return results


# ----------------------------------------------------------------------------------------------
def replay_leaf(c, cfg, model, sh_names=None):
    """build the real object with the model's configuration and input values, run the real method,
    evaluate the contract natively.  Returns dict(reproduced=bool, expected=..., got=..., error=...)"""
    cfg = dict(cfg)
    # parametric models carry widths/params/fields as variables
    for k, kind in c.symbolic.items():
        if kind == 'width' and (k + '_w') in model: cfg[k] = int(model[k + '_w'])
        if kind == 'param' and ('p_' + k) in model: cfg[k] = int(model['p_' + k])
        if kind == 'field' and ('f_' + k) in model: cfg[k] = int(model['f_' + k])
    info = {'cfg': cfg, 'model': {k: (v if isinstance(v, (int, bool)) else str(v)) for k, v in model.items()}}
    try:
        sys_, obj = make_instance(c, cfg)
    except Exception as e:
        info.update(reproduced=False, note='constructor refuses this configuration: %r' % (e,)); return info
    c = c.resolved(obj)
    # input values and state fields from the model
    real_wires = {}
    for attr, val in vars(obj).items():
        if _is_wire(val): real_wires[attr] = val
        elif isinstance(val, (list, tuple)) and val and all(_is_wire(x) for x in val):
            for i, x in enumerate(val): real_wires['%s[%d]' % (attr, i)] = x
    for attr, w in real_wires.items():
        v = model.get(attr + '_v')
        if v is not None:
            w.value = int(v) & ((1 << w.getWidth()) - 1)
    for attr in list(vars(obj)):
        if ('f_' + attr) in model and isinstance(getattr(obj, attr), int) and getattr(obj, attr) != int(model['f_' + attr]):
            setattr(obj, attr, int(model['f_' + attr]))
    call_args = [int(model.get('arg_' + a, 0)) for a in c.args]
    info['args'] = dict(zip(c.args, call_args))
    import py4hw
    py4hw.Wire.prepared = []
    pre_vals = {a: w.value for a, w in real_wires.items()}
    pre_fields = {a: v for a, v in vars(obj).items() if isinstance(v, int) and a not in INFRA}
    pre_arrays = {a: list(v) for a, v in vars(obj).items() if a in c.array_fields}
    # attributes outside the contract's integer / array state (None, strings, ...): a store into one of them is a frame violation
    pre_other = {a: v for a, v in vars(obj).items() if (v is None or isinstance(v, (str, float, bool))) and a not in INFRA}
    pre_names = set(vars(obj))
    exc = None; retval = None
    try:
        retval = quiet(getattr(obj, c.meth), *call_args)
    except Exception as e:
        exc = e
    info['pre'] = {'wires': pre_vals, 'fields': pre_fields}
    if exc is not None:
        info.update(reproduced=True, got='raises %r' % (exc,), expected='normal return satisfying the contract')
        py4hw.Wire.prepared = []
        return info
    post_vals = {a: w.value for a, w in real_wires.items()}
    post_next = {a: getattr(w, 'next', None) for a, w in real_wires.items()}
    prepared = [a for a, w in real_wires.items() if any(w is p for p in py4hw.Wire.prepared)]
    prepared_raw = list(py4hw.Wire.prepared)
    py4hw.Wire.prepared = []
    # native evaluation of the contract: old-state shape with constants
    wv = {id(w): ir.const(pre_vals[a]) for a, w in real_wires.items()}
    fv = {a: ir.const(v) for a, v in pre_fields.items()}
    av = {}
    for a, lst in pre_arrays.items():
        arr = ir.avar('replay_' + a)
        t = arr
        for i, x in enumerate(lst): t = ir.store(t, i, x)
        av[a] = t
    osh = build_shape(obj, c, 'concrete', wire_values=wv, field_values=fv, array_values=av)
    for a, v in pre_fields.items():
        osh.state.heap[('f', a)] = ir.const(v)
    ex = Executor(summaries=summaries())
    for a, v in zip(c.args, call_args):
        osh.state.loc[a] = ir.const(v)
    ex.old_state = osh.state
    problems = []
    try:
        for r in c.requires:
            if not ir.evaluate(ex.truth(ex.eval_spec(r, osh.state)), {}):
                info.update(reproduced=False, note='model violates requires %r natively' % r); return info
        newns = {}
        for f, e in c.fields.items():
            want = ir.evaluate(ir.lift(ex.eval_spec(e, osh.state)), {})
            newns[f] = ir.const(int(want))
            if getattr(obj, f) != want: problems.append(('field ' + f, want, getattr(obj, f)))
        extra = {'new': symexec.Namespace(newns)}
        for k, e in c.out.items():
            w = real_wires[k]
            want = ir.evaluate(ir.as_int(ex.eval_spec(e, osh.state, extra)), {}) % (1 << w.getWidth())
            if post_vals[k] != want: problems.append(('out ' + k, want, post_vals[k]))
        for k, e in c.nxt.items():
            w = real_wires[k]
            cond = ir.evaluate(ex.truth(ex.eval_spec(c.prepared.get(k, 'True'), osh.state, extra)), {})
            if cond != (k in prepared): problems.append(('prepared ' + k, cond, k in prepared))
            if cond:
                want = ir.evaluate(ir.as_int(ex.eval_spec(e, osh.state, extra)), {}) % (1 << w.getWidth())
                if post_next[k] != want: problems.append(('next ' + k, want, post_next[k]))
        for a, (ie, ve, ce) in c.arrays.items():
            cnd = ir.evaluate(ex.truth(ex.eval_spec(ce, osh.state, extra)), {})
            want = list(pre_arrays[a])
            if cnd:
                want[ir.evaluate(ir.as_int(ex.eval_spec(ie, osh.state, extra)), {})] = ir.evaluate(ir.as_int(ex.eval_spec(ve, osh.state, extra)), {})
            if list(getattr(obj, a)) != want: problems.append(('array ' + a, 'contract content', 'differs'))
        if c.returns is not None:
            want = ir.evaluate(ir.as_int(ex.eval_spec(c.returns, osh.state, extra)), {})
            if retval != want: problems.append(('result', want, retval))
        if c.ensures:
            # post-state view with constants
            wv2 = {id(w): ir.const(post_vals[a]) for a, w in real_wires.items()}
            psh = build_shape(obj, c, 'concrete', wire_values=wv2)
            for a in list(vars(obj)):
                if isinstance(getattr(obj, a), int) and a not in INFRA and not isinstance(getattr(obj, a), bool):
                    psh.state.heap[('f', a)] = ir.const(getattr(obj, a))
            for a, v in zip(c.args, call_args): psh.state.loc[a] = ir.const(v)
            for i, e in enumerate(c.ensures):
                ok = ir.evaluate(ex.truth(ex.eval_spec(e, psh.state, extra)), {})
                if not ok: problems.append(('ensures[%d] %s' % (i, e), True, False))
        if c.appends is not None:
            want_n = len(c.appends)
            got_n = len(prepared_raw)
            if want_n != got_n or (want_n and not all(p is obj for p in prepared_raw)):
                problems.append(('Wire.prepared appends', '[self]' * want_n, '%d item(s)' % got_n))
        # frame, natively
        for a, w in real_wires.items():
            out = any(w is p.wire for p in obj.outPorts)
            if c.kind == 'clock' and post_vals[a] != pre_vals[a]: problems.append(('value of %s changed in clock()' % a, pre_vals[a], post_vals[a]))
            if c.kind == 'propagate' and not out and post_vals[a] != pre_vals[a]: problems.append(('input %s changed' % a, pre_vals[a], post_vals[a]))
            if not (0 <= post_vals[a] < (1 << w.getWidth())): problems.append(('INV_wire ' + a, 'in range', post_vals[a]))
        for a, v in pre_fields.items():
            if a not in c.fields and getattr(obj, a) != v: problems.append(('field %s changed' % a, v, getattr(obj, a)))
        if c.kind != 'method':
            for a, v in pre_other.items():
                now = getattr(obj, a, None)
                if a not in c.fields and (type(now) is not type(v) or now != v):
                    problems.append(('attribute %s (outside the contract state) assigned by %s()' % (a, c.meth), repr(v), repr(now)))
            for a in set(vars(obj)) - pre_names:
                if a not in c.fields and a != 'next': problems.append(('new attribute %s created by %s()' % (a, c.meth), 'absent', repr(getattr(obj, a))))
    except (ir.EvalError, Unsupported, ShapeError) as e:
        info.update(reproduced=False, note='contract not evaluable natively: %r' % (e,)); return info
    info['post'] = {'wires': post_vals, 'prepared': prepared}
    if problems:
        info.update(reproduced=True, expected={p[0]: p[1] for p in problems}, got={p[0]: p[2] for p in problems})
    else:
        info.update(reproduced=False, note='real code satisfies the contract on this model (spurious model)')
    return info


# ---------------------------------------------------------------------------------------------- pure functions
def gen_func_obligations(c, summ=None, ranges=None):
    path = os.path.join(REPO, c.file)
    fdef, src = symexec.get_function(path, c.qual)
    ex = Executor(summaries={k: v for k, v in (summ if summ is not None else summaries()).items() if k != c.summary_name},
                  loop_invariants=c.invariants)
    st = State()
    rng = dict(c.ranges); rng.update(ranges or {})
    argnames = [a.arg for a in fdef.args.args]
    if argnames and argnames[0] == 'self' and 'self' not in c.args:
        argnames = argnames[1:]
    if argnames != list(c.args):
        raise ShapeError('signature of %s is %r, contract expects %r' % (c.qual, argnames, c.args))
    for a in c.args:
        lo, hi = rng.get(a, (None, None))
        st.loc[a] = ir.var('arg_' + a, lo, hi)
    old = st.clone(); ex.old_state = old
    hy = [ex.truth(ex.eval_spec(r, old)) for r in c.requires]
    outs = ex.block(fdef.body, st)
    normal = [o for o in outs if o.kind in ('fall', 'return')]
    raises = [o for o in outs if o.kind == 'raise']
    hy = hy + ex.assumptions
    obls = []
    for o in ex.obligations:
        obls.append(('%s@L%s' % (o.kind, (o.lineno or 0) - fdef.lineno), hy + [o.pc], o.goal))
    for o in raises:
        obls.append(('no_raise@L%s' % ((o.lineno or 0) - fdef.lineno), hy, ir.not_(o.state.pc)))
    fin, val, cond = symexec.merge_outcomes(normal)
    if fin is None or val is None:
        obls.append(('returns_a_value', hy, ir.FALSE))
        return obls, {'dropped': ex.dropped}
    if c.result is not None:
        if isinstance(val, tuple): raise Unsupported('result expression for a tuple-valued function: use ensures on result[i]')
        obls.append(('post.result', hy, ir.eq(ir.as_int(val), ir.as_int(ex.eval_spec(c.result, old)))))
    for i, e in enumerate(c.ensures):
        obls.append(('post.ensures[%d]' % i, hy, ex.truth(ex.eval_spec(e, old, {'result': val}))))
    return obls, {'dropped': ex.dropped, 'hyps': hy}


def verify_func(c, tier='quick', timeout_s=10, summ=None):
    results = []
    try:
        obls, meta = gen_func_obligations(c, summ)
    except (Unsupported, ShapeError, ir.EvalError, KeyError) as e:
        return [Result('%s::%s#undecided' % (c.file, c.qual), smt.Verdict('unknown', 'none', 0, reason='%s: %s' % (type(e).__name__, e)),
                       {'exception': type(e).__name__}, contract=c, mode='param')]
    allranged = c.args and all(a in c.ranges and None not in c.ranges[a] for a in c.args)
    for (cl, hy, goal) in obls:
        v = smt.prove(hy, goal, mode='int', timeout_s=timeout_s)
        md = 'parametric'
        if v.status != 'proved' and allranged:
            # fixed-width bit manipulation: exact bit-vector semantics over the declared argument ranges
            v2 = smt.prove(hy, goal, mode='bv', timeout_s=timeout_s)
            if v2.status != 'unknown' or v.status == 'unknown': v = v2; md = 'bit-vector (declared argument ranges)'
        results.append(Result('%s::%s#%s' % (c.file, c.qual, cl), v, {'mode': md}, hy, goal, None, c, 'param'))
    return results


def replay_func(c, model):
    """call the real function on the model's arguments; evaluate the contract natively"""
    import importlib
    modname = c.file[:-3].replace('/', '.')
    mod = importlib.import_module(modname)
    f = mod
    for p in c.qual.split('.'): f = getattr(f, p)
    args = [int(model.get('arg_' + a, 0)) for a in c.args]
    info = {'args': dict(zip(c.args, args))}
    def _lift(x):
        return tuple(ir.lift(y) for y in x) if isinstance(x, tuple) else ir.lift(x)
    ex = Executor(summaries=summaries()); st = State()
    for a, v in zip(c.args, args): st.loc[a] = ir.const(v)
    try:
        for r in c.requires:
            if not ir.evaluate(ex.truth(ex.eval_spec(r, st)), {}):
                info.update(reproduced=False, note='model violates requires natively'); return info
    except ir.EvalError as e:
        info.update(reproduced=False, note='requires not evaluable: %s' % e); return info
    try:
        got = quiet(f, *args)
    except Exception as e:
        info.update(reproduced=True, got='raises %r' % (e,), expected='normal return'); return info
    problems = []
    try:
        if c.result is not None:
            want = ir.evaluate(ir.as_int(ex.eval_spec(c.result, st)), {})
            if want != got: problems.append(('result', want, got))
        for i, e in enumerate(c.ensures):
            ok = ir.evaluate(ex.truth(ex.eval_spec(e, st, {'result': _lift(got)})), {})
            if not ok: problems.append(('ensures[%d] %s' % (i, e), True, False))
    except (ir.EvalError, Unsupported) as e:
        info.update(reproduced=False, note='contract not evaluable natively: %s' % e); return info
    if problems:
        info.update(reproduced=True, expected={p[0]: p[1] for p in problems}, got={p[0]: p[2] for p in problems})
    else:
        info.update(reproduced=False, note='real function satisfies the contract on this model (spurious)')
    return info
