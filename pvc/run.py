"""pvc.run -- common driver: runs work items on a process pool, decides each obligation
(discharged / violated+replayed / violated-no-input / undecided), matches known findings, writes the
evidence file and the replay files, prints the VIOLATION / KNOWN-FINDING lines, returns the exit code.

A work item is a picklable (function name, kwargs) pair; its function returns a list of plain dicts:
  {oid, status: proved|refuted|unknown|bounded-ok|bounded-fail, mode, backend, seconds, reason,
   model, cfg, replay: {reproduced: bool, ...}|None, function, bounded: bool, kind}
"""
import json, os, re, sys, time, multiprocessing, traceback, hashlib

VERIF = os.path.dirname(os.path.dirname(os.path.abspath(__file__)))
EVID = os.path.join(VERIF, 'evidence')
REPLAY = os.path.join(VERIF, 'replay')

TRUSTED_BASE = [
    'z3 5.1 (Python API) and /usr/bin/cvc5 1.0.3 as SMT back ends (cvc5 only consulted on z3 unknown)',
    'pvc VC generator (pvc/ir.py, symexec.py, smt.py, leaf.py, netlist.py): mitigated by the CPython differential of the encodings, native replay of every counter-model and the seeded-mutation corpus',
    'Python semantics assumed by the encoding: unbounded ints (true in CPython), // and % only with divisors proved > 0, shifts only with counts proved >= 0, static attribute lookup (shape reflected from a live instance built by the real constructor), left-to-right evaluation, written wires do not alias read wires inside one leaf call',
    "CPython's ast module and the real py4hw constructors executed to obtain instances / netlists",
]


def _worker(item):
    fn_name, kwargs = item
    mod_name, f_name = fn_name.rsplit(':', 1)
    t0 = time.time()
    try:
        import importlib
        mod = importlib.import_module(mod_name)
        res = getattr(mod, f_name)(**kwargs)
        for r in res:
            r.setdefault('item', '%s%r' % (f_name, tuple(sorted((k, str(v)[:40]) for k, v in kwargs.items()))))
        return res
    except Exception as e:
        return [{'oid': 'crash:%s:%s' % (fn_name, json.dumps(kwargs, default=str)[:200]), 'status': 'crash',
                 'reason': traceback.format_exc()[-1500:], 'seconds': time.time() - t0}]


def run_items(items, procs=None):
    procs = procs or int(os.environ.get('PVC_PROCS', '16'))
    if procs <= 1 or len(items) <= 1:
        out = []
        for it in items: out.extend(_worker(it))
        return out
    ctx = multiprocessing.get_context('fork')
    with ctx.Pool(min(procs, len(items))) as pool:
        out = []
        for res in pool.imap_unordered(_worker, items, chunksize=1):
            out.extend(res)
    out.sort(key=lambda r: r.get('oid', ''))
    return out


def load_known(prop):
    p = os.path.join(VERIF, 'known_findings.json')
    if not os.path.exists(p): return []
    data = json.load(open(p))
    return [f for f in data.get('findings', []) if f.get('property') == prop and f.get('status', 'open') == 'open']


def load_baseline():
    p = os.path.join(VERIF, 'baseline_obligations.json')
    if not os.path.exists(p): return {}
    return json.load(open(p))


def match_known(known, r):
    for f in known:
        if not re.search(f['oid_regex'], r.get('oid', '')):
            continue
        pred = f.get('when')
        if pred:
            env = dict(r.get('cfg') or {})
            env.update({'model': r.get('model') or {}, 'replay': r.get('replay') or {}})
            try:
                if not eval(pred, {'__builtins__': {'len': len, 'min': min, 'max': max, 'any': any, 'all': all, 'str': str, 'int': int, 'sum': sum, 'sorted': sorted, 'set': set}}, env):
                    continue
            except Exception:
                continue
        return f
    return None


def safe_name(oid):
    s = re.sub(r'[^A-Za-z0-9_.#@=,\[\]-]+', '_', oid)
    if len(s) > 150:
        s = s[:110] + '_' + hashlib.sha1(oid.encode()).hexdigest()[:12]
    return s


def finish(prop, tier, results, t0, level='proof', checker_cmd=None, functions=None, assumptions=None,
           bounded_parts=None, trusted_extra=None, extra_cov=None, seed=0, min_obligations=1, canary_ok=None,
           rule=None):
    """decide, report, write evidence; returns exit code"""
    known = load_known(prop)
    baseline = load_baseline().get(prop, {})
    os.makedirs(EVID, exist_ok=True)
    rdir = os.path.join(REPLAY, prop)
    os.makedirs(rdir, exist_ok=True)
    for old in os.listdir(rdir):
        try: os.unlink(os.path.join(rdir, old))
        except OSError: pass
    violations = []; known_seen = {}; undecided = []; crashes = []
    discharged = 0; total = 0
    by_backend = {}; by_mode = {}; solver_time = 0.0
    bounded_runs = 0; bounded_fail = 0
    samples = []
    for r in results:
        st = r.get('status')
        solver_time += r.get('seconds') or 0
        if st == 'crash':
            crashes.append(r); continue
        if r.get('bounded'):
            bounded_runs += r.get('evaluations', 1)
            if st == 'bounded-fail':
                f = match_known(known, r)
                if f: known_seen.setdefault(f['id'], (f, []))[1].append(r)
                else: violations.append(r)
            continue
        if r.get('finding_clause'):
            # clause split off an obligation because a listed finding lives there: not counted
            if st == 'refuted' and (r.get('replay') or {}).get('reproduced'):
                f = match_known(known, r)
                if f: known_seen.setdefault(f['id'], (f, []))[1].append(r)
                else: violations.append(r)
            continue
        total += 1
        if st == 'proved':
            discharged += 1
            by_backend[r.get('backend', '?')] = by_backend.get(r.get('backend', '?'), 0) + 1
            by_mode[r.get('mode', '?')] = by_mode.get(r.get('mode', '?'), 0) + 1
            if len(samples) < 4 and r.get('smt2'):
                samples.append({'obligation': r['oid'], 'mode': r.get('mode'), 'backend': r.get('backend'), 'smt2_head': r['smt2'][:600]})
        elif st == 'refuted' and (r.get('replay') or {}).get('reproduced'):
            f = match_known(known, r)
            if f:
                known_seen.setdefault(f['id'], (f, []))[1].append(r)
                total -= 1      # the finding clause is counted separately, not as an obligation
            else:
                violations.append(r)
        else:
            # unknown, or a model that does not replay: undecided -- unless the baseline says it was proved
            key = r.get('oid')
            if key in baseline:
                r['no_input'] = True
                f = match_known(known, r)
                if f:
                    known_seen.setdefault(f['id'], (f, []))[1].append(r); total -= 1
                else:
                    violations.append(r)
            else:
                undecided.append(r); total -= 1
    # baseline obligations that are no longer generated at all (the function left the analysable subset, or a
    # contract clause no longer binds): previously proved, now not discharged -> violation without a failing input
    missing = []
    seen_oids = set(r.get('oid') for r in results)
    only_filter = os.environ.get('PVC_ONLY_FILTER')
    units_seen = set((r.get('oid') or '').split('#')[0] for r in results)
    if not only_filter:
        for key, info in baseline.items():
            if info.get('tier', 'quick') == 'thorough' and tier == 'quick':
                continue
            if tier != info.get('tier', 'quick') and key.split('#')[0] not in units_seen:
                # the baseline was recorded in the other tier and this tier's grid does not contain that unit (function /
                # block / design at that configuration) at all: nothing was generated for it, nothing is missing
                continue
            if key not in seen_oids:
                missing.append(key)
    if os.environ.get('PVC_DUMP_PROVED'):
        with open(os.environ['PVC_DUMP_PROVED'], 'w') as fh:
            json.dump({r['oid']: round(r.get('seconds') or 0, 2) for r in results if r.get('status') == 'proved'}, fh)
    by_fn = {}
    for key in missing:
        by_fn.setdefault(key.split('#')[0], []).append(key)
    for fn, keys in by_fn.items():
        reason = '; '.join(sorted(set((r.get('reason') or '')[:200] for r in undecided if r.get('oid', '').startswith(fn))))[:600]
        r = {'oid': keys[0], 'status': 'unknown', 'no_input': True, 'reason': 'obligation(s) proved on the pinned tree are no longer generated/discharged for %s: %s' % (fn, reason or 'function changed shape'),
             'also_missing': keys[1:40]}
        f = match_known(known, r)
        if f: known_seen.setdefault(f['id'], (f, []))[1].append(r)
        else: violations.append(r)
    if len(samples) < 2:
        for r in results:
            if r.get('status') == 'proved' and len(samples) < 3:
                samples.append({'obligation': r['oid'], 'mode': r.get('mode'), 'backend': r.get('backend'), 'seconds': round(r.get('seconds') or 0, 4)})
    # ------------- report
    lines = []
    for fid, (f, rs) in sorted(known_seen.items()):
        lines.append('KNOWN-FINDING: property=%s %s [%s; %d obligation(s)/case(s)]' % (prop, f['what'], fid, len(rs)))
    exit_code = 0
    # one VIOLATION line per (function, clause): the other grid points go into the same replay file
    grouped = {}
    for r in violations:
        grouped.setdefault(r['oid'].split('@')[0], []).append(r)
    for gkey, rs_ in grouped.items():
        rs_.sort(key=lambda r: (not (r.get('replay') or {}).get('reproduced'), len(str(r.get('cfg')))))
        r = rs_[0]
        r['also_failing'] = [x['oid'] for x in rs_[1:]][:50]
        path = os.path.join(rdir, safe_name(r['oid']) + '.json')
        payload = {'property': prop, 'obligation': r['oid'], 'mode': r.get('mode'), 'backend': r.get('backend'),
                   'solver_status': r.get('status'), 'solver_reason': r.get('reason'), 'model': r.get('model'),
                   'cfg': r.get('cfg'), 'replay': r.get('replay'), 'tier': tier, 'also_failing': r.get('also_failing'),
                   'how_to_replay': './check %s --replay %s' % (prop, path)}
        with open(path, 'w') as fh: json.dump(payload, fh, indent=1, default=str)
        tail = ''
        if r.get('no_input') or not (r.get('replay') or {}).get('reproduced'):
            tail = ' no-failing-input-found'
        lines.append('VIOLATION property=%s replay=%s%s' % (prop, path, tail))
        exit_code = 1
    for r in crashes:
        lines.append('CHECKER-CRASH %s: %s' % (r.get('oid'), (r.get('reason') or '')[-400:].replace('\n', ' | ')))
    if crashes and exit_code == 0:
        exit_code = 3
    vac = None
    if canary_ok is False:
        lines.append('CHECKER-ERROR: canary obligation was not refuted -- engine unsound or vacuous hypotheses'); exit_code = exit_code or 3
    if total + len(known_seen) < min_obligations and not violations:
        lines.append('CHECKER-ERROR: only %d obligations generated (expected at least %d)' % (total, min_obligations)); exit_code = exit_code or 3
    for m in missing[:20]:
        lines.append('NOTE baseline obligation no longer generated: %s' % m)
    und_by = {}
    for r in undecided:
        und_by.setdefault((r.get('reason') or r.get('status') or '')[:120], []).append(r['oid'])
    cov = {
        'obligations': total, 'discharged': discharged,
        'checker_cmd': checker_cmd or ('./check %s --tier %s' % (prop, tier)),
        'trusted_base': TRUSTED_BASE + list(trusted_extra or []),
        'functions_under_contract': sorted(set(functions or [])),
        'by_backend': by_backend, 'by_mode': by_mode, 'solver_time_s': round(solver_time, 3),
        'undecided': [{'reason': k, 'count': len(v), 'examples': v[:3]} for k, v in und_by.items()],
        'undecided_count': len(undecided),
        'known_findings_seen': [{'id': fid, 'what': f['what'], 'cases': len(rs)} for fid, (f, rs) in sorted(known_seen.items())],
        'bounded_parts': bounded_parts or [], 'bounded_evaluations': bounded_runs,
        'baseline_missing': missing[:50],
        'samples': samples or [{'note': 'no discharged obligation to sample'}],
        'canary_refuted': canary_ok,
    }
    if level in ('exploration', 'fault_enumeration') or (extra_cov and 'evaluations' in extra_cov):
        pass
    if extra_cov: cov.update(extra_cov)
    if rule: cov['rule'] = rule
    ev = {'property_id': prop, 'tier': tier, 'seed': seed, 'level': level, 'coverage': cov,
          'assumptions': list(assumptions or []), 'wall_s': round(time.time() - t0, 2), 'violations': len(violations)}
    with open(os.path.join(EVID, prop + '.json'), 'w') as fh:
        json.dump(ev, fh, indent=1, default=str)
    for l in lines: print(l)
    print('%s %s: obligations=%d discharged=%d undecided=%d known=%d violations=%d bounded_evals=%d wall=%.1fs exit=%d'
          % (prop, tier, total, discharged, len(undecided), len(known_seen), len(violations), bounded_runs, time.time() - t0, exit_code))
    return exit_code
