"""pvc.netlist -- structural blocks against leaf contracts (DESIGN 2.4).

The real constructor is executed; the real Simulator supplies the evaluation order (justified by C04) and
the clock domains; every leaf contributes its *contract* (never its body): `out`/`nxt`/`fields`/`arrays`
clauses evaluated over the terms currently carried by its input wires.  Results are ir terms over the
block's free inputs (and, for sequential blocks, over its state variables), decided in BV mode.
"""
import io, contextlib, time
from . import ir, smt, symexec
from . import leaf as L
from .symexec import Executor, State


class Undecided(Exception):
    pass


def quiet(f, *a, **k):
    with contextlib.redirect_stdout(io.StringIO()):
        return f(*a, **k)


def contract_for(obj, meth):
    c = L.LEAVES.get((type(obj).__name__, meth))
    if c is None:
        raise Undecided('leaf %s.%s has no contract' % (type(obj).__name__, meth))
    # the contract must be for this very class (same module), not a homonym
    mod = type(obj).__module__.replace('.', '/') + '.py'
    if c.file != mod:
        raise Undecided('leaf class %s from %s has no contract (homonym of %s)' % (type(obj).__name__, mod, c.file))
    return c.resolved(obj)


class Netlist:
    def __init__(self, sys_):
        self.sys = sys_
        self.sim = quiet(sys_.getSimulator)
        self.prop = list(self.sim.propagatables)
        self.clocked = []
        for drv, ds in self.sim.clockDrivers.items():
            for leaf in ds.clockables:
                self.clocked.append((drv, leaf))
        self.side = []        # (leaf path, condition term) : data-dependent requires of leaf contracts
        self.struct_fail = [] # structural requires that fold to False

    # ------------------------------------------------------------------ one leaf
    def _eval_leaf(self, leaf, meth, values, fields=None, arrays=None):
        c = contract_for(leaf, meth)
        wv = {}
        inputs = set(id(p.wire) for p in leaf.inPorts if p.wire is not None)
        def cur(w):
            if id(w) in values: return values[id(w)]
            if id(w) in inputs: return self._undriven(w, values)
            # an output not yet driven in this pass: its previous value is irrelevant for a stateless leaf
            return ir.var('prev:' + w.getFullPath(), 0, (1 << w.getWidth()) - 1)
        for attr, val in vars(leaf).items():
            if L._is_wire(val):
                wv[id(val)] = cur(val)
            elif isinstance(val, (list, tuple)) and val and all(L._is_wire(x) for x in val):
                for x in val:
                    wv[id(x)] = cur(x)
        sh = L.build_shape(leaf, c, 'concrete', prefix=leaf.getFullPath() + '.', wire_values=wv,
                           field_values=fields, array_values=arrays)
        ex = Executor(summaries=L.summaries())
        ex.old_state = sh.state
        for r in c.requires:
            cond = ex.truth(ex.eval_spec(r, sh.state))
            if cond.op == 'bconst':
                if not cond.val: self.struct_fail.append((leaf.getFullPath(), r))
            else:
                self.side.append((leaf.getFullPath(), cond))
        return c, sh, ex

    def _undriven(self, w, values):
        raise Undecided('wire %s read before it is driven (evaluation order / undriven input)' % w.getFullPath())

    def propagate(self, values):
        """values: id(wire) -> term for block inputs and state-driven wires.  Returns the completed map."""
        values = dict(values)
        for leaf in self.prop:
            c, sh, ex = self._eval_leaf(leaf, 'propagate', values)
            if c.partial or c.arrays:
                raise Undecided('stateful propagate leaf %s in a composition' % type(leaf).__name__)
            outs = {}
            for k, e in c.out.items():
                w = L._wire_of(sh, k)
                outs[k] = ir.M(ir.as_int(ex.eval_spec(e, sh.state)), w.width)
            # map back to real wires
            for k, t in outs.items():
                rw = _real_wire(leaf, k)
                values[id(rw)] = t
            for p in leaf.outPorts:
                if p.wire is not None and id(p.wire) not in values:
                    raise Undecided('output %s of %s has no contract clause' % (p.name, type(leaf).__name__))
        return values

    # ------------------------------------------------------------------ sequential step
    def state_vars(self, prefix='s'):
        """symbolic state: per clocked leaf its contract fields/arrays, and the value carried by each wire it drives"""
        st = {'fields': {}, 'arrays': {}, 'q': {}}
        for drv, leaf in self.clocked:
            c = contract_for(leaf, 'clock')
            path = leaf.getFullPath()
            for f in c.fields:
                rng = c.field_range(leaf, f) if hasattr(c, 'field_range') and c.field_range else None
                lo, hi = rng if rng else (None, None)
                st['fields'][(id(leaf), f)] = ir.var('%s:%s.%s' % (prefix, path, f), lo, hi)
            for a in c.arrays:
                nm = '%s:%s.%s' % (prefix, path, a)
                info = c.array_fields[a]
                smt.declare_array(nm, len(getattr(leaf, a)), info.get('lo', 0), info.get('hi'))
                st['arrays'][(id(leaf), a)] = ir.avar(nm)
            for p in leaf.outPorts:
                if p.wire is not None:
                    w = p.wire
                    st['q'][id(w)] = ir.var('%s:%s' % (prefix, w.getFullPath()), 0, (1 << w.getWidth()) - 1)
        return st

    def init_state(self):
        """constructor state followed by the propagateAll of Simulator.__init__: fields as built, driven wires 0"""
        st = {'fields': {}, 'arrays': {}, 'q': {}}
        for drv, leaf in self.clocked:
            c = contract_for(leaf, 'clock')
            for f in c.fields:
                st['fields'][(id(leaf), f)] = ir.const(int(getattr(leaf, f)))
            for a in c.arrays:
                t = ir.avar('init:%s.%s' % (leaf.getFullPath(), a))
                # constructor content is concrete
                for i, x in enumerate(getattr(leaf, a)): t = ir.store(t, i, int(x))
                st['arrays'][(id(leaf), a)] = t
            for p in leaf.outPorts:
                if p.wire is not None:
                    st['q'][id(p.wire)] = ir.const(int(p.wire.value))
        return st

    def step(self, state, inputs, enables=None):
        """one clock edge.  Returns (pre-edge wire values, new state).  Gated domains: a driver whose enable
        wire reads 0 before the edge contributes no clock() call (C10)."""
        vals = dict(inputs); vals.update(state['q'])
        pre = self.propagate(vals)
        new = {'fields': dict(state['fields']), 'arrays': dict(state['arrays']), 'q': dict(state['q'])}
        for drv, leaf in self.clocked:
            en = ir.TRUE
            if getattr(drv, 'enable', None) is not None:
                ew = drv.enable
                if id(ew) not in pre: raise Undecided('clock enable wire %s not driven' % ew.getFullPath())
                en = ir.ne(pre[id(ew)], 0)
            fields = {f: t for (lid, f), t in state['fields'].items() if lid == id(leaf)}
            arrays = {a: t for (lid, a), t in state['arrays'].items() if lid == id(leaf)}
            c, sh, ex = self._eval_leaf(leaf, 'clock', pre, fields, arrays)
            newns = {}
            for f, e in c.fields.items():
                want = ex.eval_spec(e, sh.state)
                newns[f] = want
                new['fields'][(id(leaf), f)] = ir.ite(en, want, state['fields'][(id(leaf), f)])
            extra = {'new': symexec.Namespace(newns)}
            for a, (ie, ve, ce) in c.arrays.items():
                arr = sh.arrays[a]
                old = sh.state.heap[('a', arr.name)]
                cnd = ir.band_(en, ex.truth(ex.eval_spec(ce, sh.state, extra)))
                new['arrays'][(id(leaf), a)] = ir.ite(cnd, ir.store(old, ex.eval_spec(ie, sh.state, extra), ex.eval_spec(ve, sh.state, extra)), old)
            for k, e in c.nxt.items():
                w = L._wire_of(sh, k)
                rw = _real_wire(leaf, k)
                pc_ = ir.band_(en, ex.truth(ex.eval_spec(c.prepared.get(k, 'True'), sh.state, extra)))
                nv = ir.M(ir.as_int(ex.eval_spec(e, sh.state, extra)), w.width)
                new['q'][id(rw)] = ir.ite(pc_, nv, state['q'][id(rw)])
        return pre, new

    def outputs(self, state, inputs):
        vals = dict(inputs); vals.update(state['q'])
        return self.propagate(vals)


def _real_wire(leaf, key):
    if '[' in key:
        a, i = key[:-1].split('['); return getattr(leaf, a)[int(i)]
    return getattr(leaf, key)


# ------------------------------------------------------------------------------- block registry
BLOCKS = {}


class Block:
    def __init__(self, name, make, cfgs, spec=None, requires=None, props=(), seq=None, notes='', file=None,
                 timeout=None, finding_split=None, swap=None, opaque_mul=False, sampler=None, no_cvc5=False):
        self.swap = swap; self.opaque_mul = opaque_mul; self.sampler = sampler; self.no_cvc5 = no_cvc5
        self.name = name; self.make = make; self.cfgs = cfgs; self.spec = spec; self.requires = requires
        self.props = props; self.seq = seq; self.notes = notes; self.file = file; self.timeout = timeout
        self.finding_split = finding_split


def block(name, **kw):
    b = Block(name, **kw)
    BLOCKS[name] = b
    return b


def input_vars(ins):
    """ins: {name: real wire} -> ({id(wire): var}, {name: var})"""
    byid = {}; byname = {}
    for n, w in ins.items():
        v = ir.var('in:' + n, 0, (1 << w.getWidth()) - 1)
        byid[id(w)] = v; byname[n] = v
    return byid, byname
