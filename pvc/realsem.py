"""The axioms used by the FPNum contracts (contracts/fpnum.py::AXIOMS), proved as lemmas of real arithmetic.

The heap-mode proofs treat `val`, `qadd`, `qsub`, `qmul`, `qneg`, `qcmp` and `pow2p` as uninterpreted; what they assume about
them is the axiom list.  Here the *same axiom texts* are re-read and interpreted in the intended model

    val(s, e, m, p) = 0 if p == 0 else s * 2**e * m / p          (a real number; s, e, m, p integers)
    qadd = +, qsub = -, qmul = *, qneg = unary -, qcmp(x, y) = sign(x - y)
    pow2p(p)        = exists k >= 0. p == 2**k

and each one is proved by z3 (nonlinear real arithmetic).  2**e for a symbolic integer e is the function `pw` (real valued,
any integer exponent) resp. `ipow` (integer valued, natural exponent); what is known about them are the three schemata the
Int mode of pvc/smt.py already relies on -- recurrence 2**(k+1) = 2 * 2**k, strict monotonicity, 2**(a+b) = 2**a * 2**b --
plus positivity.  These schemata are the trusted base (listed in the evidence)."""
import ast, time
import z3

R = z3.RealSort(); I = z3.IntSort()
pw = z3.Function('pw', R, R)          # 2**e (the facts used hold for every real exponent, so the lemmas are proved for real s, e, m, p)
ipow = z3.Function('ipow', I, I)      # 2**k, k >= 0


class Ctx:
    def __init__(self):
        self.pw_args = []             # exponent terms occurring under pw
        self.n = 0
        self.extra = []

    def fresh(self, base, sort=I):
        self.n += 1
        return z3.Const('%s!%d' % (base, self.n), sort)


def _real(x):
    return z3.ToReal(x) if z3.is_int(x) else x


def build(text):
    """axiom text -> (z3 formula, context)"""
    c = Ctx()
    c.product = '*' in text.replace('2 *', '')   # 2**(a+b) = 2**a * 2**b is only offered to lemmas about products
    c.ints = 'pow2p' in text          # the power-of-two lemmas are about integers; the value lemmas hold over the reals
    tree = ast.parse(text, mode='eval').body
    return _ev(tree, {}, c, positive=True), c


def _pw(c, e):
    """2**e as a fresh real constant per distinct exponent term (Ackermann style: the query stays in pure nonlinear real
    arithmetic); base_facts relates the constants"""
    for a, w in c.pw_args:
        if a.eq(e): return w
    w = c.fresh('pw', R)
    c.pw_args.append((e, w))
    return w


def _ev(n, env, c, positive=True):
    if isinstance(n, ast.Constant):
        if isinstance(n.value, bool): return z3.BoolVal(n.value)
        return z3.IntVal(n.value) if c.ints else z3.RealVal(n.value)
    if isinstance(n, ast.Name):
        return env[n.id]
    if isinstance(n, ast.UnaryOp):
        if isinstance(n.op, ast.USub): return -_ev(n.operand, env, c)
        if isinstance(n.op, ast.Not): return z3.Not(_ev(n.operand, env, c, not positive))
    if isinstance(n, ast.BoolOp):
        vs = [_ev(v, env, c, positive) for v in n.values]
        return z3.And(*vs) if isinstance(n.op, ast.And) else z3.Or(*vs)
    if isinstance(n, ast.BinOp):
        a = _ev(n.left, env, c); b = _ev(n.right, env, c)
        if isinstance(n.op, ast.Add): return a + b
        if isinstance(n.op, ast.Sub): return a - b
        if isinstance(n.op, ast.Mult): return a * b
    if isinstance(n, ast.IfExp):
        return z3.If(_ev(n.test, env, c), _ev(n.body, env, c), _ev(n.orelse, env, c))
    if isinstance(n, ast.Compare) and len(n.ops) == 1:
        a = _ev(n.left, env, c); b = _ev(n.comparators[0], env, c)
        if z3.is_real(a) or z3.is_real(b): a, b = _real(a), _real(b)
        op = n.ops[0]
        if isinstance(op, ast.Eq): return a == b
        if isinstance(op, ast.NotEq): return a != b
        if isinstance(op, ast.Lt): return a < b
        if isinstance(op, ast.LtE): return a <= b
        if isinstance(op, ast.Gt): return a > b
        if isinstance(op, ast.GtE): return a >= b
    if isinstance(n, ast.Call) and isinstance(n.func, ast.Name):
        f = n.func.id
        if f == 'forall':
            lam = n.args[0]
            env2 = dict(env); vs = []
            for a in lam.args.args:
                # carrier variables (x, y of the abstract operations) are reals, everything else an integer
                v = c.fresh(a.arg, I if c.ints else R); env2[a.arg] = v; vs.append(v)
            body = _ev(lam.body, env2, c, positive)
            c.bound = getattr(c, 'bound', []) + vs
            return body            # the goal is proved for arbitrary constants: universal closure
        if f == 'pat':
            return _ev(n.args[-1], env, c, positive)
        if f == 'implies':
            return z3.Implies(_ev(n.args[0], env, c, not positive), _ev(n.args[1], env, c, positive))
        args = [_ev(a, env, c) for a in n.args]
        if f == 'val':
            s, e, m, p = args
            return z3.If(p == 0, z3.RealVal(0), _real(s) * _pw(c, e) * _real(m) / _real(p))
        if f == 'qadd': return _real(args[0]) + _real(args[1])
        if f == 'qsub': return _real(args[0]) - _real(args[1])
        if f == 'qmul': return _real(args[0]) * _real(args[1])
        if f == 'qneg': return -_real(args[0])
        if f == 'qcmp':
            x, y = _real(args[0]), _real(args[1])
            return z3.If(x > y, z3.RealVal(1), z3.If(x == y, z3.RealVal(0), z3.RealVal(-1)))
        if f == 'pow2p':
            p = args[0]
            if positive:
                k = z3.Int('k!ex%d' % len(c.extra)); c.extra.append(k)
                return z3.Exists([k], z3.And(k >= 0, p == ipow(k)), patterns=[ipow(k)])
            k = c.fresh('k')              # hypothesis: a Skolem exponent
            return z3.And(k >= 0, p == ipow(k))
    raise ValueError('axiom text outside the supported form: ' + ast.dump(n)[:120])


def base_facts(c):
    """instances / triggers of the three schemata for 2**e"""
    out = []
    for a, w in list(c.pw_args):
        out.append(w > 0)
        if z3.is_add(a) and a.num_args() == 2:
            out.append(w == _pw(c, a.arg(0)) * _pw(c, a.arg(1)))
    for a, w in c.pw_args:
        out.append(w > 0)
        for b, v in c.pw_args:
            if not a.eq(b):
                out.append(z3.Implies(a == b + 1, w == 2 * v))
                out.append(z3.Implies(a == b, w == v))
    if not c.ints: return out
    k, j = z3.Ints('k j')
    out += [ipow(0) == 1,
            z3.ForAll([k], z3.Implies(k >= 0, z3.And(ipow(k) >= 1, ipow(k + 1) == 2 * ipow(k))), patterns=[ipow(k)]),
            z3.ForAll([k], z3.Implies(k >= 1, ipow(k) == 2 * ipow(k - 1)), patterns=[ipow(k)]),
            z3.ForAll([k, j], z3.Implies(z3.And(0 <= k, k < j), ipow(k) < ipow(j)), patterns=[z3.MultiPattern(ipow(k), ipow(j))]),
            ]
    if c.product:
        out.append(z3.ForAll([k, j], z3.Implies(z3.And(0 <= k, 0 <= j), ipow(k + j) == ipow(k) * ipow(j)), patterns=[z3.MultiPattern(ipow(k), ipow(j))]))
    return out


def prove_axiom(name, text, timeout_s=30):
    t0 = time.time()
    import re
    mk = re.fullmatch(r'pow2p\((\d+)\)', text.strip())
    if mk:      # a literal: decided by evaluation
        v = int(mk.group(1)); ok = v >= 1 and v & (v - 1) == 0
        return {'oid': 'axiom::%s' % name, 'status': 'proved' if ok else 'unknown', 'backend': 'fold', 'mode': 'evaluation', 'seconds': 0.0,
                'reason': None if ok else 'not a power of two', 'function': 'contracts/fpnum.py::AXIOMS'}
    try:
        goal, c = build(text)
    except Exception as e:
        return {'oid': 'axiom::%s' % name, 'status': 'unknown', 'reason': '%s: %s' % (type(e).__name__, e), 'seconds': 0.0, 'mode': 'real'}
    s = z3.Solver(); s.set('timeout', int(timeout_s * 1000))
    s.add(base_facts(c)); s.add(z3.Not(goal))
    r = s.check()
    st = 'proved' if r == z3.unsat else 'unknown'
    return {'oid': 'axiom::%s' % name, 'status': st, 'backend': 'z3', 'mode': 'real/nra', 'seconds': round(time.time() - t0, 4),
            'reason': None if st == 'proved' else ('z3: %s' % (r if r == z3.sat else s.reason_unknown())), 'function': 'contracts/fpnum.py::AXIOMS'}


def axiom_item(name, text, timeout_s=30, **kw):
    return [prove_axiom(name, text, timeout_s)]


if __name__ == '__main__':
    import sys
    sys.path.insert(0, '/verif')
    from contracts.fpnum import AXIOMS
    for k, v in AXIOMS.items():
        print(prove_axiom(k, v))
