"""pvc.work -- picklable work items executed on the pool (one per contract / per block configuration).
Each returns plain dict results (see pvc.run)."""
import os, random, time
from . import ir, smt, leaf as L


def _load_contracts():
    import contracts.helpers, contracts.leaves, contracts.helpers2   # noqa: F401  (registration side effect)
    for extra in ('contracts.fsm', 'contracts.wire', 'contracts.helpers2'):
        try:
            __import__(extra)
        except ImportError:
            pass


def _res_to_dict(r, replay=None, extra=None):
    v = r.verdict
    d = {'oid': r.oid, 'status': v.status, 'mode': (r.detail or {}).get('mode') or r.mode, 'backend': v.backend,
         'seconds': round(v.seconds, 4), 'reason': v.reason, 'model': v.model if v.status == 'refuted' else None,
         'cfg': r.cfg, 'replay': replay, 'function': r.contract.qual if r.contract is not None else None}
    if extra: d.update(extra)
    return d


def _exclude(model):
    cl = []
    for k, v in (model or {}).items():
        if isinstance(v, bool): continue
        if isinstance(v, int): cl.append(ir.eq(ir.var(k), ir.const(v)))
    return ir.not_(ir.band_(*cl)) if cl else ir.TRUE


def _exclude_same_vars(r, model):
    """exclusion clause built on the variables of the obligation itself (ranges are part of identity)"""
    fv = ir.free_vars(*(list(r.hyps or []) + [r.goal]))
    cl = []
    for k, v in (model or {}).items():
        t = fv.get(k)
        if t is not None and t.op == 'var' and isinstance(v, int) and not isinstance(v, bool):
            cl.append(ir.eq(t, ir.const(v)))
    return ir.not_(ir.band_(*cl)) if cl else ir.TRUE


def decide_with_replay(r, replay_fn, timeout_s, rounds=12):
    """a sat answer is only a candidate: replay it natively; if the real code satisfies the contract on
    that model (uninterpreted band/bor, or a degenerate width) exclude the model and ask again"""
    tries = 0
    hyps = list(r.hyps or [])
    v = r.verdict
    last_replay = None
    while v.status == 'refuted' and tries < rounds:
        rep = replay_fn(v.model)
        last_replay = rep
        if rep.get('reproduced'):
            return v, rep
        hyps = hyps + [_exclude_same_vars(r, v.model)]
        tries += 1
        mode = 'bv' if v.mode == 'bv' else 'int'
        v = smt.prove(hyps, r.goal, mode=mode, timeout_s=timeout_s)
    if v.status == 'proved':
        # proved only after excluding finitely many points that were each checked natively
        v.reason = 'proved after excluding %d natively-checked spurious model(s)' % tries
        return v, last_replay
    if v.status == 'refuted':
        v = smt.Verdict('unknown', v.backend, v.seconds, reason='models do not replay on the real code (%d tried)' % tries, mode=v.mode)
    return v, last_replay


def leaf_item(cls, meth, tier='quick', timeout_s=10, seed=0):
    _load_contracts()
    c = L.LEAVES[(cls, meth)]
    out = []
    rs = L.verify_leaf(c, tier, timeout_s=timeout_s)
    need_bounded = False
    shape = [r for r in rs if (r.detail or {}).get('shape_error')]
    if shape:
        # the code reads an attribute the constructor never binds: replay once natively
        r0 = shape[0]
        rep = L.replay_leaf(c, r0.cfg, {})
        d = _res_to_dict(r0, rep)
        d['oid'] = '%s#attributes_bound' % c.qual
        d['status'] = 'refuted' if rep.get('reproduced') else 'unknown'
        d['reason'] = r0.detail['shape_error']
        d['model'] = {}
        out.append(d)
        rs = [r for r in rs if not (r.detail or {}).get('shape_error')]
    for r in rs:
        rep = None
        v = r.verdict
        if v.status == 'refuted':
            v, rep = decide_with_replay(r, lambda m: L.replay_leaf(c, r.cfg, m), timeout_s)
            r.verdict = v
        if v.status == 'unknown':
            need_bounded = True
        out.append(_res_to_dict(r, rep))
    if need_bounded:
        out.extend(bounded_leaf(c, tier, seed))
    return out


def func_item(name, tier='quick', timeout_s=10, seed=0):
    _load_contracts()
    c = L.FUNCS[name]
    out = []
    need_bounded = False
    for r in L.verify_func(c, tier, timeout_s=timeout_s):
        rep = None
        v = r.verdict
        if v.status == 'refuted':
            v, rep = decide_with_replay(r, lambda m: L.replay_func(c, m), timeout_s)
            r.verdict = v
        if v.status == 'unknown': need_bounded = True
        out.append(_res_to_dict(r, rep))
    if need_bounded:
        out.extend(bounded_func(c, tier, seed))
    return out


# ----------------------------------------------------------------------------- bounded stand-ins
def bounded_leaf(c, tier, seed, per_cfg=None):
    """native evaluation of the contract on boundary + seeded random inputs (labelled bounded)"""
    rnd = random.Random(seed * 7919 + hash(c.qual) % 1000)
    per_cfg = per_cfg or (40 if tier == 'quick' else 200)
    n = 0; fails = []
    for cfg in c.cfgs(tier):
        try:
            sys_, obj = L.make_instance(c, cfg)
        except Exception:
            continue
        names = []
        for attr, val in vars(obj).items():
            if L._is_wire(val): names.append((attr, val.getWidth()))
            elif isinstance(val, (list, tuple)) and val and all(L._is_wire(x) for x in val):
                names += [('%s[%d]' % (attr, i), x.getWidth()) for i, x in enumerate(val)]
        fields = [a for a in c.resolved(obj).fields]
        for k in range(per_cfg):
            model = {}
            for a, w in names:
                top = (1 << w) - 1
                model[a + '_v'] = rnd.choice([0, 1, top, top >> 1, (top >> 1) + 1, rnd.randint(0, top), rnd.randint(0, top)]) & top
            for f in fields:
                model['f_' + f] = rnd.choice([0, 1, 2, 3, rnd.randint(0, 255)])
            for a in c.args:
                big = 1 << max([w for _, w in names] + [int(cfg.get('width', 8))])
                model['arg_' + a] = rnd.choice([0, 1, -1, -2, -3, -200, big - 1, big, big + 5, -big, -big - 1, rnd.randint(-4 * big, 4 * big), rnd.randint(-300, 300)])
            if c.kind == 'method':
                wdt = int(cfg.get('width', 8))
                for f in ('value', 'next'):
                    if f in c.symbolic: model['f_' + f] = rnd.randint(0, (1 << wdt) - 1)
            rep = L.replay_leaf(c, cfg, model)
            n += 1
            if rep.get('reproduced'):
                fails.append((cfg, model, rep))
                break
        if fails: break
    out = []
    if fails:
        for cfg, model, rep in fails[:5]:
            out.append({'oid': '%s#bounded@%s' % (c.qual, ','.join('%s=%s' % kv for kv in sorted(cfg.items()))),
                        'status': 'bounded-fail', 'bounded': True, 'evaluations': n, 'model': model, 'cfg': cfg,
                        'replay': rep, 'function': c.qual, 'mode': 'bounded-native'})
    else:
        out.append({'oid': '%s#bounded' % c.qual, 'status': 'bounded-ok', 'bounded': True, 'evaluations': n,
                    'function': c.qual, 'mode': 'bounded-native'})
    return out


def bounded_func(c, tier, seed, n=None):
    rnd = random.Random(seed * 104729 + hash(c.qual) % 1000)
    n = n or (2000 if tier == 'quick' else 20000)
    fails = []
    cnt = 0
    gen = c.samples
    for k in range(n):
        if gen is not None:
            args = gen(rnd)
        else:
            args = [rnd.choice([0, 1, 2, 3, 7, 8, 15, 16, 31, 32, 33, 64, rnd.randint(-300, 300), rnd.randint(0, 1 << 40)]) for _ in c.args]
        model = {'arg_' + a: v for a, v in zip(c.args, args)}
        rep = L.replay_func(c, model)
        cnt += 1
        if rep.get('reproduced'):
            fails.append((model, rep)); break
    if fails:
        model, rep = fails[0]
        return [{'oid': '%s::%s#bounded' % (c.file, c.qual), 'status': 'bounded-fail', 'bounded': True, 'evaluations': cnt,
                 'model': model, 'replay': rep, 'function': c.qual, 'mode': 'bounded-native'}]
    return [{'oid': '%s::%s#bounded' % (c.file, c.qual), 'status': 'bounded-ok', 'bounded': True, 'evaluations': cnt,
             'function': c.qual, 'mode': 'bounded-native'}]


def canary():
    """an obligation that must be refuted (x & mask == x for all x is false), through the same pipeline"""
    x = ir.var('canary_x', 0, 255)
    v1 = smt.prove([], ir.eq(ir.mod(x, ir.const(16)), x), mode='bv', timeout_s=5)
    w = ir.var('canary_w'); y = ir.var('canary_y')
    v2 = smt.prove([ir.ge(w, 1), ir.ge(y, 0)], ir.eq(ir.M(y, w), y), mode='int', timeout_s=5)
    # and one that must be proved, so that 'everything refuted' is not mistaken for health
    v3 = smt.prove([ir.ge(w, 1), ir.ge(y, 0), ir.lt(y, ir.pow2(w))], ir.eq(ir.M(y, w), y), mode='int', timeout_s=5)
    ok = v1.status == 'refuted' and v2.status == 'refuted' and v3.status == 'proved'
    # engine differential on a few random terms (native evaluation vs both encodings): an unsound encoding must not pass silently
    try:
        import io, contextlib, importlib.util
        spec = importlib.util.spec_from_file_location('selftest_ir', os.path.join(os.path.dirname(os.path.dirname(os.path.abspath(__file__))), 'tools', 'selftest_ir.py'))
        m = importlib.util.module_from_spec(spec); spec.loader.exec_module(m)
        with contextlib.redirect_stdout(io.StringIO()):
            ok = ok and m.main(12, int(os.environ.get('VERIF_SEED', '0') or 0) + 11) == 0
    except Exception:
        ok = False
    return ok


# ----------------------------------------------------------------------------- structural blocks
def _load_blocks():
    _load_contracts()
    import specs.arith, specs.logic   # noqa: F401
    for extra in ('specs.seq', 'specs.fp', 'specs.fxp', 'specs.axi'):
        try:
            __import__(extra)
        except ImportError as e:
            if extra.split('.')[1] not in str(e): raise


def _cfg_tag(cfg):
    return ','.join('%s=%s' % (k, v) for k, v in sorted(cfg.items()))



def _direction_obls(obj, ins, outs, base, cfg, name):
    """the interface of the block as built by the real constructor: every wire the statement reads as an input is attached to
    an input port of the block, every wire it reads as an output to an output port (finite structural fact, by reflection)"""
    res = []
    inw = [p.wire for p in getattr(obj, 'inPorts', [])]; outw = [p.wire for p in getattr(obj, 'outPorts', [])]
    for kind, table, pool, other in (('in', ins, inw, outw), ('out', outs, outw, inw)):
        for k, w in table.items():
            ok = any(x is w for x in pool)
            if ok or not any(x is w for x in other):
                continue          # wires that are no port of the block at all (observed internal wires) carry no direction claim
            res.append({'oid': '%s#port_direction[%s]' % (base, k), 'status': 'refuted', 'cfg': cfg, 'model': {}, 'mode': 'native/structural', 'function': name,
                        'replay': {'reproduced': True, 'expected': '%s is an %sput port of the block' % (k, kind), 'got': 'it is attached as an %sput port' % ('out' if kind == 'in' else 'in')}})
    if not res:
        res.append({'oid': '%s#port_directions' % base, 'status': 'proved', 'mode': 'native/structural', 'backend': 'reflection', 'seconds': 0.0, 'function': name, 'cfg': cfg})
    return res

def comb_item(name, cfg, tier='quick', timeout_s=10, seed=0):
    """one combinational block at one configuration: compose leaf contracts, discharge the block-level
    postcondition for all input values"""
    from . import netlist as N
    _load_blocks()
    b = N.BLOCKS[name]
    tag = _cfg_tag(cfg)
    base = 'block::%s@%s' % (name, tag)
    try:
        sys_ = L.new_system()
        obj, ins, outs = N.quiet(b.make, sys_, dict(cfg))
    except Exception as e:
        return [{'oid': base + '#refused', 'status': 'refused', 'bounded': True, 'evaluations': 0, 'reason': repr(e)[:200], 'cfg': cfg}]
    out = _direction_obls(obj, ins, outs, base, cfg, name)
    t0 = time.time()
    try:
        nl = N.Netlist(sys_)
        byid, I = N.input_vars(ins)
        vals = nl.propagate(byid)
    except (N.Undecided, L.Unsupported, L.ShapeError, ir.EvalError, AttributeError, NameError, ValueError, IndexError, TypeError) as e:
        # a crash of the real simulator construction on an accepted configuration is a replayable failure
        if isinstance(e, (AttributeError, NameError, ValueError, IndexError, TypeError)):
            return [{'oid': base + '#constructs_and_simulates', 'status': 'refuted', 'cfg': cfg, 'model': {}, 'mode': 'native',
                     'replay': {'reproduced': True, 'got': 'raises %r' % (e,), 'expected': 'a simulator for an accepted configuration'},
                     'function': name, 'seconds': time.time() - t0}]
        return [{'oid': base + '#undecided', 'status': 'unknown', 'reason': '%s: %s' % (type(e).__name__, e), 'cfg': cfg,
                 'function': name, 'seconds': time.time() - t0}]
    req = [ir.truth(x) for x in (b.requires(cfg, I) if b.requires else [])]
    widths = {n: w.getWidth() for n, w in outs.items()}
    widths.update({n: w.getWidth() for n, w in ins.items()})
    O = {n: vals[id(w)] for n, w in outs.items()}
    if getattr(b, 'swap', None):
        # second evaluation of the same netlist with two inputs exchanged (commutativity clauses)
        x, y = b.swap
        byid2 = dict(byid); byid2[id(ins[x])] = I[y]; byid2[id(ins[y])] = I[x]
        vals2 = nl.propagate(byid2)
        O.update({n + "'": vals2[id(w)] for n, w in outs.items()})
    spec = _call_spec(b, cfg, I, widths, O)
    obls = []
    lemma_mode = {}
    for k, want in spec.items():
        if k.startswith('lemma:'):
            # a mathematical fact the specification relies on, stated and discharged on its own (mode, hyps, goal)
            mode_, hy_, goal_ = want
            obls.append((k, list(hy_), ir.truth(goal_))); lemma_mode[k] = mode_
        elif k.startswith('pred:'):
            obls.append((k, req, ir.truth(want)))
        else:
            w = outs[k]
            obls.append(('out[%s]' % k, req, ir.eq(vals[id(w)], ir.M(ir.as_int(want), w.getWidth()))))
    for i, (path, cond) in enumerate(nl.side):
        obls.append(('leaf_requires[%d:%s]' % (i, path.split('/')[-1]), req, cond))
    for path, r in nl.struct_fail:
        obls.append(('leaf_requires_structural[%s]' % path.split('/')[-1], [], ir.FALSE))
    for o in outs:
        if o not in spec and not any(k.startswith('pred:') for k in spec):
            obls.append(('unspecified_output[%s]' % o, [], ir.FALSE))
    for (cl, hy, goal) in obls:
        v = smt.prove(hy, goal, mode=lemma_mode.get(cl, 'bv'), timeout_s=(b.timeout(tier) if callable(b.timeout) else b.timeout) or timeout_s, opaque_mul=bool(getattr(b, 'opaque_mul', False)), use_cvc5=not getattr(b, 'no_cvc5', False))
        rep = None
        if v.status == 'refuted' and cl not in lemma_mode:
            r = L.Result(base + '#' + cl, v, None, hy, goal, cfg, None, 'bv')
            v, rep = decide_with_replay(r, lambda m: replay_comb(b, cfg, m, spec, req), (b.timeout(tier) if callable(b.timeout) else b.timeout) or timeout_s, rounds=4)
        out.append({'oid': base + '#' + cl, 'status': v.status, 'mode': 'composition/width-grid', 'backend': v.backend,
                    'seconds': round(v.seconds, 4), 'reason': v.reason, 'model': v.model if v.status == 'refuted' else None,
                    'cfg': cfg, 'replay': rep, 'function': name, 'leaves': len(nl.prop)})
    if any(r['status'] == 'unknown' for r in out):
        out.extend(bounded_comb(b, cfg, tier, seed, ins))
    return out


def bounded_comb(b, cfg, tier, seed, ins, n=None):
    """bounded stand-in for a block configuration whose obligation stayed undecided: the real simulator against
    the specification on boundary + seeded random inputs inside the block's requires (labelled bounded)"""
    rnd = random.Random(seed * 7907 + hash(_cfg_tag(cfg)) % 100003)
    n = n or (300 if tier == 'quick' else 3000)
    tried = 0; ok = 0
    base = 'block::%s@%s' % (b.name, _cfg_tag(cfg))
    for k in range(n * 20):
        if ok >= n: break
        if getattr(b, 'sampler', None):
            model = b.sampler(cfg, rnd)
        else:
            model = {}
            for nme, w in ins.items():
                top = (1 << w.getWidth()) - 1
                model['in:' + nme] = rnd.choice([0, 1, top, top >> 1, (top >> 1) + 1, rnd.randint(0, top), rnd.randint(0, top)])
        tried += 1
        rep = replay_comb(b, cfg, model)
        if rep.get('reproduced'):
            return [{'oid': base + '#bounded', 'status': 'bounded-fail', 'bounded': True, 'evaluations': ok + 1, 'model': model, 'cfg': cfg,
                     'replay': rep, 'function': b.name, 'mode': 'bounded-native'}]
        if 'violates the block requires' in (rep.get('note') or ''):
            continue
        ok += 1
    return [{'oid': base + '#bounded', 'status': 'bounded-ok', 'bounded': True, 'evaluations': ok, 'cfg': cfg, 'function': b.name,
             'mode': 'bounded-native', 'tried': tried}]


def _call_spec(b, cfg, I, widths, O):
    import inspect
    if len(inspect.signature(b.spec).parameters) >= 4:
        return b.spec(cfg, I, widths, O)
    return b.spec(cfg, I, widths)


def replay_comb(b, cfg, model, spec=None, req=None):
    """real simulator on the model's inputs vs the specification evaluated natively"""
    from . import netlist as N
    info = {'cfg': cfg, 'inputs': {k[3:]: v for k, v in model.items() if k.startswith('in:')}}
    try:
        sys_ = L.new_system()
        obj, ins, outs = N.quiet(b.make, sys_, dict(cfg))
        sim = N.quiet(sys_.getSimulator)
    except Exception as e:
        info.update(reproduced=False, note='cannot rebuild: %r' % (e,)); return info
    env = {}
    for n, w in ins.items():
        v = int(model.get('in:' + n, 0)) & ((1 << w.getWidth()) - 1)
        w.put(v); env['in:' + n] = v
    try:
        N.quiet(sim.propagateAll)
    except Exception as e:
        info.update(reproduced=True, got='raises %r' % (e,), expected='settles'); return info
    byid, I = N.input_vars(ins)
    widths = {n: w.getWidth() for n, w in outs.items()}; widths.update({n: w.getWidth() for n, w in ins.items()})
    info['outputs'] = {n: w.get() for n, w in outs.items()}
    O = {n: ir.const(w.get()) for n, w in outs.items()}
    if getattr(b, 'swap', None):
        x, y = b.swap
        vx, vy = ins[x].get(), ins[y].get()
        ins[x].put(vy); ins[y].put(vx)
        N.quiet(sim.propagateAll)
        O.update({n + "'": ir.const(w.get()) for n, w in outs.items()})
        ins[x].put(vx); ins[y].put(vy)
        N.quiet(sim.propagateAll)
    spec = _call_spec(b, cfg, I, widths, O)
    req = [ir.truth(x) for x in (b.requires(cfg, I) if b.requires else [])]
    try:
        if not all(ir.evaluate(r, env) for r in req):
            info.update(reproduced=False, note='model violates the block requires natively'); return info
        problems = {}
        for k, want in spec.items():
            if k.startswith('lemma:'):
                continue
            if k.startswith('pred:'):
                if not ir.evaluate(ir.truth(want), env): problems[k] = (True, False)
                continue
            w = outs[k]
            exp = ir.evaluate(ir.M(ir.as_int(want), w.getWidth()), env)
            if w.get() != exp: problems[k] = (exp, w.get())
    except ir.EvalError as e:
        info.update(reproduced=False, note='spec not evaluable: %s' % e); return info
    if problems:
        info.update(reproduced=True, expected={k: v[0] for k, v in problems.items()}, got={k: v[1] for k, v in problems.items()})
    else:
        info.update(reproduced=False, note='real simulator agrees with the specification on this input (spurious model)')
    return info


# ----------------------------------------------------------------------------- sequential blocks
def _relpath(leaf, root):
    parts = []
    o = leaf
    while o is not None and o is not root:
        parts.append(o.name); o = o.parent
    return '/'.join(reversed(parts))


def _seq_setup(b, cfg):
    from . import netlist as N
    sys_ = L.new_system()
    obj, ins, outs = N.quiet(b.make, sys_, dict(cfg))
    nl = N.Netlist(sys_)
    return sys_, obj, ins, outs, nl


def _seq_state_from_spec(nl, obj, mapping, prefix_check=True):
    """netlist state := image of the spec state under the refinement mapping"""
    st = {'fields': {}, 'arrays': {}, 'q': {}}
    seen = set()
    for drv, leaf in nl.clocked:
        rp = _relpath(leaf, obj)
        if rp not in mapping:
            raise KeyError('refinement mapping has no entry for clocked leaf %r (have %s)' % (rp, sorted(mapping)))
        seen.add(rp)
        m = mapping[rp]
        outs = [p for p in leaf.outPorts if p.wire is not None]
        if isinstance(m, ir.T) or isinstance(m, int):
            m = ir.lift(m)
            st['fields'][(id(leaf), 'value')] = m
            assert len(outs) == 1
            st['q'][id(outs[0].wire)] = ir.M(m, outs[0].wire.getWidth())
        else:
            for f, t in m.get('fields', {}).items(): st['fields'][(id(leaf), f)] = ir.lift(t)
            for a, t in m.get('arrays', {}).items(): st['arrays'][(id(leaf), a)] = t
            for p in outs:
                st['q'][id(p.wire)] = ir.M(ir.lift(m['q'][p.name]), p.wire.getWidth())
    return st


def seq_item(name, cfg, tier='quick', timeout_s=10, seed=0):
    """sequential block: refinement of the reference state machine of the statement, one-step (inductive)"""
    from . import netlist as N
    _load_blocks()
    b = N.BLOCKS[name]; sp = b.seq
    tag = _cfg_tag(cfg); base = 'block::%s@%s' % (name, tag)
    t0 = time.time()
    try:
        sys_, obj, ins, outs, nl = _seq_setup(b, cfg)
    except (N.Undecided,) as e:
        return [{'oid': base + '#undecided', 'status': 'unknown', 'reason': str(e), 'cfg': cfg, 'function': name}]
    except (AttributeError, NameError, ValueError, IndexError, TypeError) as e:
        return [{'oid': base + '#constructs_and_simulates', 'status': 'refuted', 'cfg': cfg, 'model': {}, 'mode': 'native',
                 'replay': {'reproduced': True, 'got': 'raises %r' % (e,), 'expected': 'a simulator for an accepted configuration'},
                 'function': name, 'seconds': time.time() - t0}]
    except Exception as e:
        return [{'oid': base + '#refused', 'status': 'refused', 'bounded': True, 'evaluations': 0, 'reason': repr(e)[:200], 'cfg': cfg}]
    out = _direction_obls(obj, ins, outs, base, cfg, name)
    try:
        byid, I = N.input_vars(ins)
        S = {k: ir.var('st:' + k, lo, hi) for k, (lo, hi) in sp['state'](cfg).items()}
        req = [ir.truth(x) for x in (sp['requires'](cfg, S, I) if sp.get('requires') else [])]
        inv = [ir.truth(x) for x in (sp['invariant'](cfg, S) if sp.get('invariant') else [])]
        N0 = _seq_state_from_spec(nl, obj, sp['regs'](cfg, S))
        pre, N1 = nl.step(N0, byid)
        S1 = sp['step'](cfg, S, I)
        S1 = {k: ir.lift(v) for k, v in S1.items()}
        want = _seq_state_from_spec(nl, obj, sp['regs'](cfg, S1))
        obls = []
        # init
        Si = {k: ir.lift(v) for k, v in sp['init'](cfg).items()}
        wi = _seq_state_from_spec(nl, obj, sp['regs'](cfg, Si))
        ni = nl.init_state()
        for kind in ('fields', 'q'):
            for key, t in ni[kind].items():
                obls.append(('init.%s[%s]' % (kind, _keyname(nl, obj, kind, key)), [], ir.eq(t, wi[kind][key])))
        for key, t in ni['arrays'].items():
            pass   # initial memory content is whatever the constructor built; the mapping takes it as spec state
        if inv:
            obls.append(('init.invariant', [], ir.band_(*[ir.substitute(x, {('st:' + k): v for k, v in Si.items()}) for x in inv])))
            obls.append(('step.invariant', req + inv, ir.band_(*[ir.substitute(x, {('st:' + k): v for k, v in S1.items()}) for x in inv])))
        hy = req + inv
        for kind in ('fields', 'q'):
            for key, t in N1[kind].items():
                obls.append(('step.%s[%s]' % (kind, _keyname(nl, obj, kind, key)), hy, ir.eq(t, want[kind][key])))
        for key, t in N1['arrays'].items():
            obls.append(('step.array[%s]' % _keyname(nl, obj, 'arrays', key), hy, ir.aeq(t, want['arrays'][key])))
        ovals = nl.outputs(N0, byid)
        ospec = sp['out'](cfg, S, I)
        for k, e in ospec.items():
            w = outs[k]
            obls.append(('out[%s]' % k, inv, ir.eq(ovals[id(w)], ir.M(ir.as_int(e), w.getWidth()))))
        for o in outs:
            if o not in ospec: obls.append(('unspecified_output[%s]' % o, [], ir.FALSE))
        if sp.get('lemmas'):
            # clauses of the statement that are consequences of the reference machine (checked on the machine)
            for k, e in sp['lemmas'](cfg, S, I, S1).items():
                obls.append(('statement_clause[%s]' % k, hy, ir.truth(e)))
        for i, (path, cond) in enumerate(nl.side):
            obls.append(('leaf_requires[%d:%s]' % (i, path.split('/')[-1]), hy, cond))
        for path, r in nl.struct_fail:
            obls.append(('leaf_requires_structural[%s]' % path.split('/')[-1], [], ir.FALSE))
    except (N.Undecided, L.Unsupported, L.ShapeError, ir.EvalError) as e:
        return [{'oid': base + '#undecided', 'status': 'unknown', 'reason': '%s: %s' % (type(e).__name__, e), 'cfg': cfg, 'function': name}]
    for (cl, hy, goal) in obls:
        v = smt.prove(hy, goal, mode='bv', timeout_s=b.timeout or timeout_s)
        rep = None
        if v.status == 'refuted':
            r = L.Result(base + '#' + cl, v, None, hy, goal, cfg, None, 'bv')
            v, rep = decide_with_replay(r, lambda m: replay_seq(b, cfg, m, init=cl.startswith('init')), b.timeout or timeout_s, rounds=4)
        out.append({'oid': base + '#' + cl, 'status': v.status, 'mode': 'composition/width-grid', 'backend': v.backend,
                    'seconds': round(v.seconds, 4), 'reason': v.reason, 'model': v.model if v.status == 'refuted' else None,
                    'cfg': cfg, 'replay': rep, 'function': name, 'leaves': len(nl.prop) + len(nl.clocked)})
    return out


def _keyname(nl, obj, kind, key):
    if kind == 'q':
        for drv, leaf in nl.clocked:
            for p in leaf.outPorts:
                if p.wire is not None and id(p.wire) == key: return _relpath(leaf, obj) + '.' + p.name
        return str(key)
    lid, f = key
    for drv, leaf in nl.clocked:
        if id(leaf) == lid: return _relpath(leaf, obj) + '.' + f
    return str(key)


def replay_seq(b, cfg, model, init=False, cycles=1):
    """real simulator: load the state image of the model's spec state, apply the model's inputs, clk(1);
    compare registers and outputs with the reference machine evaluated natively"""
    from . import netlist as N
    sp = b.seq
    info = {'cfg': cfg, 'inputs': {k[3:]: v for k, v in model.items() if k.startswith('in:')},
            'spec_state': {k[3:]: v for k, v in model.items() if k.startswith('st:')}}
    try:
        sys_, obj, ins, outs, nl = _seq_setup(b, cfg)
        sim = nl.sim
    except Exception as e:
        info.update(reproduced=False, note='cannot rebuild: %r' % (e,)); return info
    rng = sp['state'](cfg)
    Sc = {k: ir.const(int(model.get('st:' + k, lo))) for k, (lo, hi) in rng.items()}
    Ic = {n: ir.const(int(model.get('in:' + n, 0)) & ((1 << w.getWidth()) - 1)) for n, w in ins.items()}
    try:
        if init:
            Sc = {k: ir.lift(v) for k, v in sp['init'](cfg).items()}
        else:
            img = _seq_state_from_spec(nl, obj, sp['regs'](cfg, Sc))
            for drv, leaf in nl.clocked:
                for (lid, f), t in img['fields'].items():
                    if lid == id(leaf): setattr(leaf, f, ir.evaluate(t, {}))
                for p in leaf.outPorts:
                    if p.wire is not None: p.wire.value = ir.evaluate(img['q'][id(p.wire)], {})
        for n, w in ins.items(): w.put(Ic[n].val)
        problems = {}
        if not init:
            if sp.get('requires') and not all(ir.evaluate(ir.truth(x), {}) for x in sp['requires'](cfg, Sc, Ic)):
                info.update(reproduced=False, note='model violates the block requires'); return info
            if sp.get('invariant') and not all(ir.evaluate(ir.truth(x), {}) for x in sp['invariant'](cfg, Sc)):
                info.update(reproduced=False, note='model state violates the reference invariant'); return info
            N.quiet(sim.propagateAll)
            # outputs as a function of (state, inputs)
            for k, e in sp['out'](cfg, Sc, Ic).items():
                exp = ir.evaluate(ir.M(ir.as_int(e), outs[k].getWidth()), {})
                if outs[k].get() != exp: problems['out ' + k] = (exp, outs[k].get())
            N.quiet(sim.clk, 1)
            S1 = {k: ir.lift(v) for k, v in sp['step'](cfg, Sc, Ic).items()}
        else:
            S1 = Sc
        img1 = _seq_state_from_spec(nl, obj, sp['regs'](cfg, S1))
        for drv, leaf in nl.clocked:
            for (lid, f), t in img1['fields'].items():
                if lid == id(leaf):
                    exp = ir.evaluate(t, {})
                    if getattr(leaf, f) != exp: problems['%s.%s' % (_relpath(leaf, obj), f)] = (exp, getattr(leaf, f))
            for p in leaf.outPorts:
                if p.wire is not None:
                    exp = ir.evaluate(img1['q'][id(p.wire)], {})
                    if p.wire.get() != exp: problems['%s.%s' % (_relpath(leaf, obj), p.name)] = (exp, p.wire.get())
    except Exception as e:
        import py4hw
        py4hw.Wire.prepared = []
        info.update(reproduced=True, got='raises %r' % (e,), expected='one clock cycle'); return info
    if problems:
        info.update(reproduced=True, expected={k: v[0] for k, v in problems.items()}, got={k: v[1] for k, v in problems.items()})
    else:
        info.update(reproduced=False, note='real simulator follows the reference machine on this state/input (spurious model)')
    return info
