"""pvc.symexec -- forward symbolic execution of real py4hw method bodies (ast.FunctionDef) into
pvc.ir terms, with state merging at joins (DESIGN 2.1a).  The same evaluator interprets the
contract language (requires / ensures / invariants), so code and contracts share one semantics.

Nothing about a particular py4hw class is built in except the four Wire accessors, whose summaries
(WIRE_SUMMARY) are themselves proved against the real Wire / BidirWire source by the C06 check.
"""
import ast, copy
from . import ir
from .ir import T


class Unsupported(Exception):
    """construct outside the supported subset: the function is undecided, never skipped"""


class ShapeError(Exception):
    """the code reads an attribute the constructor never bound (e.g. SubBorrowIn.ci)"""


class SymWire:
    def __init__(self, name, width, is_output=False, kind='Wire'):
        self.name = name
        self.width = ir.lift(width)
        self.is_output = is_output
        self.kind = kind

    def __repr__(self):
        return '<wire %s>' % self.name


class SymList:
    def __init__(self, items, name='list'):
        self.items = list(items); self.name = name

    def __repr__(self):
        return '<list %s[%d]>' % (self.name, len(self.items))


class SymArray:
    """a Python list of ints held as an ir array (self.data of the memories)"""

    def __init__(self, name, length):
        self.name = name; self.length = ir.lift(length)


class Opaque:
    def __init__(self, what):
        self.what = what

    def __repr__(self):
        return '<opaque %s>' % self.what


class StrChar:
    """one character of a constant string selected by a (possibly symbolic) index"""

    def __init__(self, s, idx):
        self.s = s; self.idx = idx


class SymSeq:
    """an abstract Python list used only through `x in seq` and `seq.append(x)` (Wire.prepared seen
    from inside Wire.prepare): membership is havoc, appends are recorded for the postcondition"""

    def __init__(self, name):
        self.name = name


class Choice:
    """element of a list selected by a symbolic index: [(cond, item)]"""

    def __init__(self, alts):
        self.alts = alts


class Obligation:
    def __init__(self, kind, pc, goal, lineno=None, note=''):
        self.kind = kind; self.pc = pc; self.goal = goal; self.lineno = lineno; self.note = note

    def __repr__(self):
        return 'Obl(%s@%s %s)' % (self.kind, self.lineno, self.note)


# Wire accessor summaries (the L0 contracts).  C06 proves the real source against these.
WIRE_FIELDS = ('value', 'next', 'prep', 'put')


class State:
    """locals + heap.  heap keys: ('w',wire,'value'|'next'|'prep'|'put'|'nprep'), ('f',attr) self field,
    ('a',name) array content.  Values are ir terms or symbolic python-level objects."""

    def __init__(self):
        self.loc = {}
        self.heap = {}
        self.pc = ir.TRUE

    def clone(self):
        s = State(); s.loc = dict(self.loc); s.heap = dict(self.heap); s.pc = self.pc
        return s


def merge_values(c, a, b, what=''):
    if a is b:
        return a
    if isinstance(a, bool): a = ir.bconst(a)
    if isinstance(b, bool): b = ir.bconst(b)
    if isinstance(a, int): a = ir.const(a)
    if isinstance(b, int): b = ir.const(b)
    if isinstance(a, T) and isinstance(b, T):
        if a.sort != b.sort:
            if 'a' in (a.sort, b.sort): raise Unsupported('merge of array and scalar for ' + what)
            a = ir.as_int(a); b = ir.as_int(b)
        return ir.ite(c, a, b)
    if a is UNBOUND or b is UNBOUND or isinstance(a, MaybeUnbound) or isinstance(b, MaybeUnbound):
        return MaybeUnbound(c, a, b)
    raise Unsupported('cannot merge %r and %r for %s' % (a, b, what))


class _Unbound:
    def __repr__(self): return '<unbound>'


UNBOUND = _Unbound()


class MaybeUnbound:
    def __init__(self, c, a, b):
        self.c = c; self.a = a; self.b = b


def merge_states(c, sa, sb):
    s = State()
    s.pc = ir.bor_(sa.pc, sb.pc)
    for k in set(sa.loc) | set(sb.loc):
        s.loc[k] = merge_values(c, sa.loc.get(k, UNBOUND), sb.loc.get(k, UNBOUND), 'local ' + k)
    for k in set(sa.heap) | set(sb.heap):
        if k[0] == 'fw':
            s.heap[k] = ir.TRUE; continue
        s.heap[k] = merge_values(c, sa.heap.get(k, UNBOUND), sb.heap.get(k, UNBOUND), 'heap %r' % (k,))
    return s


class Outcome:
    def __init__(self, kind, state, value=None, exc=None, lineno=None):
        self.kind = kind      # 'fall' | 'return' | 'raise' | 'break' | 'continue'
        self.state = state; self.value = value; self.exc = exc; self.lineno = lineno


class Executor:
    """one Executor per analysed function call"""

    def __init__(self, self_fields=None, summaries=None, loop_invariants=None, globals_=None,
                 max_unroll=256, fresh_prefix='h'):
        self.obligations = []
        self.summaries = summaries or {}
        self.loop_invariants = loop_invariants or {}
        self.globals = globals_ or {}
        self.max_unroll = max_unroll
        self.loop_ordinal = 0
        self.fresh_n = 0
        self.fresh_prefix = fresh_prefix
        self.assumptions = []      # hypotheses introduced by havoc (ranges of fresh variables)
        self.old_state = None
        self.dropped = []          # what the extraction dropped (prints, docstrings, imports)
        self.reads = set()         # wires whose value was read
        self.seq_appends = []      # (sequence name, appended value, path condition)
        self.field_reads = set()

    # ------------------------------------------------------------------ helpers
    def fresh(self, hint, lo=None, hi=None):
        self.fresh_n += 1
        return ir.var('%s_%s%d' % (self.fresh_prefix, hint, self.fresh_n), lo, hi)

    def oblige(self, kind, st, goal, node=None, note=''):
        goal = ir.truth(goal)
        if goal.op == 'bconst' and goal.val:
            return
        self.obligations.append(Obligation(kind, st.pc, goal, getattr(node, 'lineno', None), note))

    # ------------------------------------------------------------------ wire accessors
    def wire_get(self, st, w, node=None):
        self.reads.add(w)
        return st.heap[('w', w, 'value')]

    def wire_put(self, st, w, val, node=None):
        val = ir.as_int(val)
        self.oblige('width_nonneg', st, ir.ge(w.width, 0), node, 'put on %s' % w.name)
        st.heap[('w', w, 'value')] = ir.mod(val, ir.pow2(w.width))
        st.heap[('w', w, 'put')] = ir.TRUE

    def wire_prepare(self, st, w, val, node=None):
        val = ir.as_int(val)
        self.oblige('width_nonneg', st, ir.ge(w.width, 0), node, 'prepare on %s' % w.name)
        st.heap[('w', w, 'next')] = ir.mod(val, ir.pow2(w.width))
        st.heap[('w', w, 'nprep')] = ir.add(st.heap.get(('w', w, 'nprep'), ir.const(0)), 1)
        st.heap[('w', w, 'prep')] = ir.TRUE

    # ------------------------------------------------------------------ expressions
    def ev(self, n, st):
        m = getattr(self, 'e_' + type(n).__name__, None)
        if m is None:
            raise Unsupported('expression %s at line %s' % (type(n).__name__, getattr(n, 'lineno', '?')))
        return m(n, st)

    def e_Constant(self, n, st):
        v = n.value
        if isinstance(v, bool): return ir.bconst(v)
        if isinstance(v, int): return ir.const(v)
        if v is None: return None
        if isinstance(v, str): return v
        raise Unsupported('constant %r (line %s)' % (v, n.lineno))

    def e_Name(self, n, st):
        if n.id in st.loc:
            v = st.loc[n.id]
            if v is UNBOUND or isinstance(v, MaybeUnbound):
                raise Unsupported('possibly unbound local %s (line %s)' % (n.id, n.lineno))
            return v
        if n.id in self.globals:
            return self.globals[n.id]
        if n.id in ('True', 'False'):
            return ir.bconst(n.id == 'True')
        raise Unsupported('unknown name %s (line %s)' % (n.id, n.lineno))

    def get_attr(self, base, attr, st, node=None):
        if isinstance(base, SelfRef):
            key = ('f', attr)
            if key not in st.heap:
                if attr in base.methods:
                    return BoundMethod(base, attr)
                raise ShapeError('self.%s is read but never bound by the constructor (line %s)'
                                 % (attr, getattr(node, 'lineno', '?')))
            v = st.heap[key]
            self.field_reads.add(attr)
            if v is UNBOUND or isinstance(v, MaybeUnbound):
                raise ShapeError('self.%s may be unbound' % attr)
            return v
        if isinstance(base, SymWire):
            if attr == 'width': return base.width
            if attr == 'value': return self.wire_get(st, base, node)
            if attr == 'next':
                v = st.heap.get(('w', base, 'next'))
                if v is None: raise Unsupported('read of .next of a wire never prepared')
                return v
            if attr in ('prepared_now',): return st.heap.get(('w', base, 'prep'), ir.FALSE)
            if attr in ('put_now',): return st.heap.get(('w', base, 'put'), ir.FALSE)
            if attr in ('nprep',): return st.heap.get(('w', base, 'nprep'), ir.const(0))
            if attr in ('get', 'put', 'prepare', 'getWidth'):
                return BoundMethod(base, attr)
            raise Unsupported('wire attribute .%s' % attr)
        if isinstance(base, SymArray):
            if attr == 'length': return base.length
        if isinstance(base, Namespace):
            return base.get(attr)
        if isinstance(base, Choice):
            return BoundMethod(base, attr)
        if isinstance(base, SymSeq):
            return BoundMethod(base, attr)
        raise Unsupported('attribute .%s of %r (line %s)' % (attr, base, getattr(node, 'lineno', '?')))

    def e_Attribute(self, n, st):
        base = self.ev(n.value, st)
        return self.get_attr(base, n.attr, st, n)

    def e_Subscript(self, n, st):
        base = self.ev(n.value, st)
        idx = self.ev(n.slice, st)
        return self.subscript(base, idx, st, n)

    def subscript(self, base, idx, st, n=None):
        if isinstance(base, str):
            idx = ir.as_int(idx)
            self.oblige('index_in_range', st, ir.band_(ir.ge(idx, -len(base)), ir.lt(idx, len(base))), n, 'string index')
            return StrChar(base, idx)
        if isinstance(base, tuple):
            idx = ir.as_int(idx)
            if not ir.is_const(idx): raise Unsupported('symbolic index into a tuple')
            return base[idx.val]
        if isinstance(base, SymList):
            idx = ir.as_int(idx)
            L = len(base.items)
            if ir.is_const(idx):
                i = idx.val
                if not (-L <= i < L):
                    self.oblige('index_in_range', st, ir.FALSE, n, 'constant index %d of list of %d' % (i, L))
                    raise Unsupported('constant list index out of range')
                return base.items[i]
            self.oblige('index_in_range', st, ir.band_(ir.ge(idx, 0), ir.lt(idx, L)), n, 'list index')
            items = base.items
            if all(isinstance(x, T) or isinstance(x, int) for x in items):
                r = ir.lift(items[-1])
                for j in range(L - 2, -1, -1):
                    r = ir.ite(ir.eq(idx, j), items[j], r)
                return r
            return Choice([(ir.eq(idx, j), items[j]) for j in range(L)])
        if isinstance(base, SymArray):
            idx = ir.as_int(idx)
            self.oblige('index_in_range', st, ir.band_(ir.ge(idx, 0), ir.lt(idx, base.length)), n,
                        'index into %s' % base.name)
            return ir.sel(st.heap[('a', base.name)], idx)
        raise Unsupported('subscript of %r (line %s)' % (base, getattr(n, 'lineno', '?')))

    def e_BinOp(self, n, st):
        l = self.ev(n.left, st); r = self.ev(n.right, st)
        return self.binop(type(n.op).__name__, l, r, st, n)

    def binop(self, op, l, r, st, n=None):
        if isinstance(l, str) or isinstance(r, str):
            if op == 'Add' and isinstance(l, str) and isinstance(r, str): return l + r
            raise Unsupported('string arithmetic')
        if not isinstance(l, (T, int, bool)) or not isinstance(r, (T, int, bool)):
            raise Unsupported('arithmetic on %r, %r (line %s)' % (l, r, getattr(n, 'lineno', '?')))
        l = ir.as_int(l); r = ir.as_int(r)
        try:
            if op == 'Add': return ir.add(l, r)
            if op == 'Sub': return ir.sub(l, r)
            if op == 'Mult': return ir.mul(l, r)
            if op == 'FloorDiv':
                self.oblige('divisor_positive', st, ir.gt(r, 0), n, '// divisor')
                return ir.fdiv(l, r)
            if op == 'Mod':
                self.oblige('divisor_positive', st, ir.gt(r, 0), n, '% divisor')
                return ir.mod(l, r)
            if op == 'LShift':
                self.oblige('shift_nonneg', st, ir.ge(r, 0), n, '<< count')
                return ir.shl(l, r)
            if op == 'RShift':
                self.oblige('shift_nonneg', st, ir.ge(r, 0), n, '>> count')
                return ir.shr(l, r)
            if op == 'BitAnd': return ir.band(l, r)
            if op == 'BitOr': return ir.bor(l, r)
            if op == 'BitXor': return ir.bxor(l, r)
            if op == 'Pow':
                if ir.is_const(l) and l.val == 2:
                    self.oblige('shift_nonneg', st, ir.ge(r, 0), n, '2** exponent')
                    return ir.pow2(r)
        except ir.EvalError as e:
            self.oblige('no_exception', st, ir.FALSE, n, str(e))
            return self.fresh('exc')
        raise Unsupported('operator %s (line %s)' % (op, getattr(n, 'lineno', '?')))

    def e_UnaryOp(self, n, st):
        v = self.ev(n.operand, st)
        op = type(n.op).__name__
        if op == 'Not': return ir.not_(self.truth(v))
        if not isinstance(v, (T, int)): raise Unsupported('unary on %r' % (v,))
        if op == 'Invert': return ir.bnot(v)
        if op == 'USub': return ir.neg(v)
        if op == 'UAdd': return ir.as_int(v)
        raise Unsupported(op)

    def truth(self, v):
        if v is None: return ir.FALSE
        if isinstance(v, (SymWire, SymArray, Opaque, SelfRef)): return ir.TRUE
        if isinstance(v, SymList): return ir.bconst(len(v.items) > 0)
        if isinstance(v, str): return ir.bconst(len(v) > 0)
        if isinstance(v, (bool, int)): return ir.bconst(bool(v))
        if isinstance(v, T): return ir.truth(v)
        raise Unsupported('truth value of %r' % (v,))

    def e_BoolOp(self, n, st):
        # Python and/or return operands; in conditions only truthiness matters.  We support the
        # boolean reading, and the value reading when all operands are ir terms of bool sort.
        vals = []
        cur = st
        # short-circuit: later operands are evaluated under the guard of the earlier ones
        guards = []
        saved_pc = st.pc
        try:
            for v in n.values:
                x = self.ev(v, st)
                tv = self.truth(x)
                vals.append(tv)
                if tv.op == 'bconst' and tv.val == isinstance(n.op, ast.Or):
                    break          # short circuit: later operands are not evaluated
                st.pc = ir.band_(st.pc, tv if isinstance(n.op, ast.And) else ir.not_(tv))
        finally:
            st.pc = saved_pc
        return ir.band_(*vals) if isinstance(n.op, ast.And) else ir.bor_(*vals)

    def e_Compare(self, n, st):
        left = self.ev(n.left, st)
        res = []
        for op, comp in zip(n.ops, n.comparators):
            right = self.ev(comp, st)
            res.append(self.compare(type(op).__name__, left, right, n))
            left = right
        return ir.band_(*res)

    def compare(self, op, l, r, n=None):
        if op in ('In', 'NotIn') and isinstance(r, SymSeq):
            self.fresh_n += 1
            b = ir.bvar('%s_member%d' % (self.fresh_prefix, self.fresh_n))
            return b if op == 'In' else ir.not_(b)
        if op in ('Is', 'IsNot', 'Eq', 'NotEq') and (l is None or r is None or isinstance(l, (SymWire, SymList, Opaque, str)) or isinstance(r, (SymWire, SymList, Opaque, str))):
            if isinstance(l, T) or isinstance(r, T):
                same = False   # an int is never None / a wire
            elif isinstance(l, str) and isinstance(r, str):
                same = (l == r)
            else:
                same = (l is r)
            return ir.bconst(same if op in ('Is', 'Eq') else not same)
        if not isinstance(l, (T, int, bool)) or not isinstance(r, (T, int, bool)):
            raise Unsupported('comparison of %r and %r' % (l, r))
        l = ir.lift(l); r = ir.lift(r)
        f = {'Eq': ir.eq, 'NotEq': ir.ne, 'Lt': ir.lt, 'LtE': ir.le, 'Gt': ir.gt, 'GtE': ir.ge,
             'Is': ir.eq, 'IsNot': ir.ne}.get(op)
        if f is None: raise Unsupported('comparison ' + op)
        return f(l, r)

    def e_IfExp(self, n, st):
        c = self.truth(self.ev(n.test, st))
        if c.op == 'bconst':
            return self.ev(n.body if c.val else n.orelse, st)
        saved = st.pc
        st.pc = ir.band_(saved, c); a = self.ev(n.body, st)
        st.pc = ir.band_(saved, ir.not_(c)); b = self.ev(n.orelse, st)
        st.pc = saved
        return merge_values(c, a, b, 'conditional expression')

    def e_Tuple(self, n, st):
        return tuple(self.ev(e, st) for e in n.elts)

    def e_List(self, n, st):
        return SymList([self.ev(e, st) for e in n.elts])

    def e_JoinedStr(self, n, st):
        return '<fstring>'

    def e_Call(self, n, st):
        f = n.func
        # spec-level and builtin functions by name
        if isinstance(f, ast.Name):
            name = f.id
            if name == 'old':
                if self.old_state is None: raise Unsupported('old() outside a postcondition')
                return self.ev(n.args[0], self.old_state)
            if name in BUILTINS:
                args = [self.ev(a, st) for a in n.args]
                return BUILTINS[name](self, st, n, *args)
            if name == 'print':
                self.dropped.append('print@%s' % n.lineno); return None
            if name in self.summaries:
                args = [self.ev(a, st) for a in n.args]
                return self.apply_summary(self.summaries[name], args, st, n)
            raise Unsupported('call to %s (line %s)' % (name, n.lineno))
        if isinstance(f, ast.Attribute):
            # Module.function / Class.function summaries, e.g. IntegerHelper.c2_to_signed
            if isinstance(f.value, ast.Name) and f.value.id not in st.loc and f.value.id != 'self':
                q = f.value.id + '.' + f.attr
                if q in self.summaries:
                    args = [self.ev(a, st) for a in n.args]
                    return self.apply_summary(self.summaries[q], args, st, n)
                if q == 'random.randint':
                    a, b = [ir.as_int(self.ev(x, st)) for x in n.args]
                    v = self.fresh('rand')
                    self.assumptions.append(ir.band_(ir.le(a, v), ir.le(v, b)))
                    return v
            base = self.ev(f.value, st)
            if isinstance(base, str) and f.attr == 'format':
                return '<formatted>'
            args = [self.ev(a, st) for a in n.args]
            return self.call_method(base, f.attr, args, st, n)
        raise Unsupported('call form (line %s)' % n.lineno)

    def call_method(self, base, meth, args, st, n):
        if isinstance(base, Choice):
            results = []
            for cond, item in base.alts:
                sub = st.clone(); sub.pc = ir.band_(st.pc, cond)
                r = self.call_method(item, meth, args, sub, n)
                results.append((cond, sub, r))
            # fold effects back
            acc_state = results[-1][1]; acc_val = results[-1][2]
            for cond, sub, r in reversed(results[:-1]):
                merged = merge_states(cond, sub, acc_state)
                acc_val = merge_values(cond, r, acc_val, 'choice result') if (r is not None or acc_val is not None) else None
                acc_state = merged
            st.loc = acc_state.loc; st.heap = acc_state.heap
            return acc_val
        if isinstance(base, SymWire):
            if meth == 'get' and not args: return self.wire_get(st, base, n)
            if meth == 'getWidth' and not args: return base.width
            if meth == 'put' and len(args) == 1:
                self.wire_put(st, base, args[0], n); return None
            if meth == 'prepare' and len(args) == 1:
                self.wire_prepare(st, base, args[0], n); return None
            raise Unsupported('wire method %s (line %s)' % (meth, n.lineno))
        if isinstance(base, SelfRef):
            if meth == 'getParameterValue':
                k = args[0]
                key = ('p', k)
                if key not in st.heap: raise ShapeError('parameter %r not declared' % (k,))
                return st.heap[key]
            q = 'self.' + meth
            if q in self.summaries:
                return self.apply_summary(self.summaries[q], args, st, n)
            raise Unsupported('call to self.%s (line %s)' % (meth, n.lineno))
        if isinstance(base, SymSeq):
            if meth == 'append' and len(args) == 1:
                self.seq_appends.append((base.name, args[0], st.pc)); return None
        if isinstance(base, SymList):
            if meth == 'append' and len(args) == 1:
                raise Unsupported('list mutation')
        raise Unsupported('method %s on %r (line %s)' % (meth, base, n.lineno))

    def apply_summary(self, summ, args, st, n):
        """callee contract instead of callee body: assert requires, return the specified result"""
        args = [ir.lift(a) if isinstance(a, (int, bool)) else a for a in args]
        req = summ.get('requires')
        if req is not None:
            self.oblige('callee_requires', st, req(*args), n, summ.get('name', ''))
        return summ['result'](*args)

    # ------------------------------------------------------------------ statements
    def block(self, stmts, st):
        """execute a statement list; returns list of Outcomes"""
        outs = []
        cur = st
        for i, s in enumerate(stmts):
            res = self.stmt(s, cur)
            falls = [o for o in res if o.kind == 'fall']
            outs.extend(o for o in res if o.kind != 'fall')
            if not falls:
                return outs
            assert len(falls) == 1
            cur = falls[0].state
        outs.append(Outcome('fall', cur))
        return outs

    def stmt(self, s, st):
        m = getattr(self, 's_' + type(s).__name__, None)
        if m is None:
            raise Unsupported('statement %s at line %s' % (type(s).__name__, s.lineno))
        return m(s, st)

    def s_Expr(self, s, st):
        if isinstance(s.value, ast.Constant):
            self.dropped.append('docstring/constant-expression@%s' % s.lineno)
            return [Outcome('fall', st)]
        self.ev(s.value, st)
        return [Outcome('fall', st)]

    def s_Pass(self, s, st):
        return [Outcome('fall', st)]

    def s_Import(self, s, st):
        self.dropped.append('import@%s' % s.lineno)
        return [Outcome('fall', st)]

    s_ImportFrom = s_Import

    def assign_to(self, target, v, st):
        if isinstance(target, ast.Name):
            st.loc[target.id] = v
        elif isinstance(target, ast.Attribute):
            base = self.ev(target.value, st)
            if isinstance(base, SelfRef):
                st.heap[('f', target.attr)] = v
                st.heap[('fw', target.attr)] = ir.TRUE
            else:
                raise Unsupported('store to attribute of %r (line %s)' % (base, target.lineno))
        elif isinstance(target, ast.Subscript):
            base = self.ev(target.value, st)
            idx = ir.as_int(self.ev(target.slice, st))
            if isinstance(base, SymArray):
                self.oblige('index_in_range', st, ir.band_(ir.ge(idx, 0), ir.lt(idx, base.length)), target,
                            'store index into %s' % base.name)
                st.heap[('a', base.name)] = ir.store(st.heap[('a', base.name)], idx, ir.as_int(v))
            else:
                raise Unsupported('subscript store (line %s)' % target.lineno)
        elif isinstance(target, ast.Tuple):
            if not isinstance(v, tuple) or len(v) != len(target.elts): raise Unsupported('tuple unpack')
            for t, x in zip(target.elts, v): self.assign_to(t, x, st)
        else:
            raise Unsupported('assignment target')

    def s_Assign(self, s, st):
        v = self.ev(s.value, st)
        for t in s.targets:
            self.assign_to(t, v, st)
        return [Outcome('fall', st)]

    def s_AnnAssign(self, s, st):
        if s.value is not None:
            self.assign_to(s.target, self.ev(s.value, st), st)
        return [Outcome('fall', st)]

    def s_AugAssign(self, s, st):
        cur = self.ev(_as_load(s.target), st)
        v = self.binop(type(s.op).__name__, cur, self.ev(s.value, st), st, s)
        self.assign_to(s.target, v, st)
        return [Outcome('fall', st)]

    def s_Return(self, s, st):
        v = self.ev(s.value, st) if s.value is not None else None
        return [Outcome('return', st, value=v, lineno=s.lineno)]

    def s_Raise(self, s, st):
        return [Outcome('raise', st, exc=ast.unparse(s.exc) if s.exc is not None else 're-raise', lineno=s.lineno)]

    def s_Assert(self, s, st):
        c = self.truth(self.ev(s.test, st))
        if c.op == 'bconst' and c.val:
            return [Outcome('fall', st)]
        bad = st.clone(); bad.pc = ir.band_(st.pc, ir.not_(c))
        st.pc = ir.band_(st.pc, c)
        return [Outcome('raise', bad, exc='AssertionError', lineno=s.lineno), Outcome('fall', st)]

    def s_If(self, s, st):
        c = self.truth(self.ev(s.test, st))
        if c.op == 'bconst':
            return self.block(s.body if c.val else s.orelse, st)
        sa = st.clone(); sa.pc = ir.band_(st.pc, c)
        sb = st.clone(); sb.pc = ir.band_(st.pc, ir.not_(c))
        pa0, pb0 = sa.pc, sb.pc
        ra = self.block(s.body, sa)
        rb = self.block(s.orelse, sb)
        outs = [o for o in ra + rb if o.kind != 'fall']
        fa = [o for o in ra if o.kind == 'fall']; fb = [o for o in rb if o.kind == 'fall']
        if fa and fb:
            m = self.merge_states(c, fa[0].state, fb[0].state)
            # the two branch conditions partition the incoming condition only if neither branch narrowed its own (a callee that
            # may raise, an assert, an early exit): otherwise the join carries the disjunction of what reaches it
            whole = not outs and fa[0].state.pc is pa0 and fb[0].state.pc is pb0
            m.pc = st.pc if whole else ir.bor_(fa[0].state.pc, fb[0].state.pc)
            outs.append(Outcome('fall', m))
        elif fa:
            outs.append(fa[0])
        elif fb:
            outs.append(fb[0])
        return outs

    def merge_states(self, c, sa, sb):
        return merge_states(c, sa, sb)

    def s_Match(self, s, st):
        subj = self.ev(s.subject, st)
        # desugar into an if-chain on equality with constant patterns
        def build(cases):
            if not cases: return []
            c = cases[0]
            if c.guard is not None: raise Unsupported('match guard')
            p = c.pattern
            if isinstance(p, ast.MatchAs) and p.pattern is None and p.name is None:
                return c.body
            if isinstance(p, ast.MatchValue):
                test = ast.Compare(left=s.subject, ops=[ast.Eq()], comparators=[p.value])
            elif isinstance(p, ast.MatchOr) and all(isinstance(q, ast.MatchValue) for q in p.patterns):
                test = ast.BoolOp(op=ast.Or(), values=[ast.Compare(left=s.subject, ops=[ast.Eq()], comparators=[q.value]) for q in p.patterns])
            else:
                raise Unsupported('match pattern %s' % type(p).__name__)
            node = ast.If(test=test, body=c.body, orelse=build(cases[1:]))
            ast.copy_location(node, c.pattern); ast.fix_missing_locations(node)
            return [node]
        return self.block(build(s.cases), st)

    # loops ---------------------------------------------------------------------------------
    def s_For(self, s, st):
        ordinal = self.loop_ordinal; self.loop_ordinal += 1
        if s.orelse: raise Unsupported('for-else')
        it = self.ev(s.iter, st)
        seq = None
        if isinstance(it, tuple) and it and it[0] == 'range':
            lo, hi, step = it[1]
            if ir.is_const(lo) and ir.is_const(hi) and ir.is_const(step):
                seq = [ir.const(i) for i in range(lo.val, hi.val, step.val)]
            else:
                inv = self.loop_invariants.get(ordinal)
                if inv is None:
                    raise Unsupported('loop %d over a symbolic range needs an invariant (line %s)' % (ordinal, s.lineno))
                if not (ir.is_const(step) and step.val == 1): raise Unsupported('symbolic range with step')
                return self.for_range_invariant(s, st, lo, hi, inv, ordinal)
        elif isinstance(it, tuple) and it and it[0] == 'enumerate':
            seq = [(ir.const(i), x) for i, x in enumerate(it[1].items)]
        elif isinstance(it, SymList):
            seq = list(it.items)
        else:
            raise Unsupported('iteration over %r (line %s)' % (it, s.lineno))
        if len(seq) > self.max_unroll:
            raise Unsupported('loop of %d iterations exceeds the unroll limit' % len(seq))
        outs = []
        cur = st
        for item in seq:
            self.assign_to(s.target, item, cur)
            res = self.block(s.body, cur)
            for o in res:
                if o.kind in ('break', 'continue'):
                    raise Unsupported('break/continue in unrolled loop (line %s)' % s.lineno)
            outs.extend(o for o in res if o.kind not in ('fall',))
            falls = [o for o in res if o.kind == 'fall']
            if not falls: return outs
            cur = falls[0].state
        outs.append(Outcome('fall', cur))
        return outs

    def havoc(self, st, written_locals, tag):
        h = st.clone()
        for v in written_locals:
            if v in h.loc:
                if isinstance(h.loc[v], T) and h.loc[v].sort == 'i': h.loc[v] = self.fresh('%s_%s' % (tag, v))
                elif isinstance(h.loc[v], T) and h.loc[v].sort == 'b': h.loc[v] = ir.bvar('%s_%s_%d' % (self.fresh_prefix, tag, id(h)) + v)
                else: raise Unsupported('loop modifies non-scalar local ' + v)
            else:
                h.loc[v] = UNBOUND
        return h

    def for_range_invariant(self, s, st, lo, hi, inv, ordinal):
        """for i in range(lo, hi) with invariant I(i):
             lo < hi  ->  I(lo)                      (init)
             I(i) & lo <= i < hi |- body |- I(i+1)   (preservation, on havoc'ed written locals)
             continue from  I(hi)  (fresh copies)  if lo < hi, from the entry state otherwise."""
        if not isinstance(s.target, ast.Name): raise Unsupported('loop target')
        iname = s.target.id
        written_locals, written_wires, written_fields = _write_set(s.body)
        written_locals.discard(iname)
        if written_wires or written_fields:
            raise Unsupported('wire/field stores inside a loop with a symbolic range (line %s)' % s.lineno)
        nonempty = ir.lt(lo, hi)
        e = st.clone(); e.loc[iname] = lo; e.pc = ir.band_(st.pc, nonempty)
        self.oblige('loop%d.inv.init' % ordinal, e, self.eval_spec(inv, e), s)
        # arbitrary iteration
        h = self.havoc(st, written_locals, 'it%d' % ordinal)
        i = self.fresh('it%d_%s' % (ordinal, iname))
        h.loc[iname] = i
        h.pc = ir.band_(st.pc, self.eval_spec(inv, h), ir.le(lo, i), ir.lt(i, hi))
        res = self.block(s.body, h)
        if any(o.kind != 'fall' for o in res): raise Unsupported('non-local exit from an invariant loop')
        after = res[0].state
        after.loc[iname] = ir.add(i, 1)
        self.oblige('loop%d.inv.preserve' % ordinal, after, self.eval_spec(inv, after), s)
        # exit
        ex = self.havoc(st, written_locals, 'ex%d' % ordinal)
        ex.loc[iname] = hi
        self.assumptions.append(ir.implies(ir.band_(st.pc, nonempty), self.eval_spec(inv, ex)))
        ex.loc[iname] = ir.sub(hi, 1)
        m = merge_states(nonempty, ex, st.clone())
        m.pc = st.pc
        return [Outcome('fall', m)]

    def s_While(self, s, st):
        raise Unsupported('while loop (line %s)' % s.lineno)

    def s_Break(self, s, st):
        return [Outcome('break', st)]

    def s_Continue(self, s, st):
        return [Outcome('continue', st)]

    # ------------------------------------------------------------------ contract expressions
    def eval_spec(self, text_or_ast, st, extra=None):
        """evaluate a contract expression (string) in state st with the same evaluator"""
        node = text_or_ast
        if isinstance(node, str):
            node = ast.parse(node.strip(), mode='eval').body
        saved_obl = self.obligations; saved_reads = (set(self.reads), set(self.field_reads))
        self.obligations = []           # side conditions inside specifications are not code obligations
        saved_loc = st.loc
        if extra:
            st.loc = dict(st.loc); st.loc.update(extra)
        try:
            v = self.ev(node, st)
        finally:
            st.loc = saved_loc
            self.obligations = saved_obl
            self.reads, self.field_reads = saved_reads
        return v


class SelfRef:
    def __init__(self, methods=()):
        self.methods = set(methods)


class BoundMethod:
    def __init__(self, base, name):
        self.base = base; self.name = name


class Namespace:
    def __init__(self, d): self.d = d

    def get(self, k):
        if k not in self.d: raise Unsupported('no attribute ' + k)
        return self.d[k]


def _as_load(target):
    t = copy.deepcopy(target)
    for n in ast.walk(t):
        if hasattr(n, 'ctx'): n.ctx = ast.Load()
    return t


def _write_set(stmts):
    locs, wires, fields = set(), False, set()
    for s in stmts:
        for n in ast.walk(s):
            if isinstance(n, (ast.Assign, ast.AugAssign, ast.AnnAssign)):
                tg = n.targets if isinstance(n, ast.Assign) else [n.target]
                for t in tg:
                    for x in ast.walk(t):
                        if isinstance(x, ast.Name) and isinstance(x.ctx, ast.Store): locs.add(x.id)
                        if isinstance(x, ast.Attribute) and isinstance(x.ctx, ast.Store): fields.add(x.attr)
            if isinstance(n, ast.For):
                for x in ast.walk(n.target):
                    if isinstance(x, ast.Name): locs.add(x.id)
            if isinstance(n, ast.Call) and isinstance(n.func, ast.Attribute) and n.func.attr in ('put', 'prepare'):
                wires = True
    return locs, wires, fields


# ----------------------------------------------------------------------------- builtins / spec functions
def _b_range(ex, st, n, *a):
    a = [ir.as_int(x) for x in a]
    if len(a) == 1: return ('range', (ir.const(0), a[0], ir.const(1)))
    if len(a) == 2: return ('range', (a[0], a[1], ir.const(1)))
    return ('range', tuple(a))


def _b_enumerate(ex, st, n, lst):
    if not isinstance(lst, SymList): raise Unsupported('enumerate of %r' % (lst,))
    return ('enumerate', lst)


def _b_len(ex, st, n, x):
    if isinstance(x, SymList): return ir.const(len(x.items))
    if isinstance(x, SymArray): return x.length
    if isinstance(x, str): return ir.const(len(x))
    raise Unsupported('len of %r' % (x,))


def _b_ord(ex, st, n, c):
    if isinstance(c, StrChar):
        r = ir.const(ord(c.s[-1]))
        for j in range(len(c.s) - 2, -1, -1):
            r = ir.ite(ir.eq(c.idx, j), ord(c.s[j]), r)
        return r
    if isinstance(c, str) and len(c) == 1: return ir.const(ord(c))
    raise Unsupported('ord of non-constant')


def _b_int(ex, st, n, x):
    if isinstance(x, T): return ir.as_int(x)
    raise Unsupported('int() of %r' % (x,))


def _b_bool(ex, st, n, x):
    return ex.truth(x)


def _b_min(ex, st, n, a, b):
    return ir.ite(ir.le(a, b), a, b)


def _b_max(ex, st, n, a, b):
    return ir.ite(ir.ge(a, b), a, b)


def _b_abs(ex, st, n, a):
    return ir.ite(ir.ge(a, 0), a, ir.neg(a))


def _b_isinstance(ex, st, n, x, cls):
    raise Unsupported('isinstance')


BUILTINS = {
    'range': _b_range, 'enumerate': _b_enumerate, 'len': _b_len, 'ord': _b_ord, 'int': _b_int,
    'bool': _b_bool, 'min': _b_min, 'max': _b_max, 'abs': _b_abs,
    # specification vocabulary (contracts only; harmless in code because /repo never defines them)
    'pow2': lambda ex, st, n, e: ir.pow2(e),
    'M': lambda ex, st, n, x, k: ir.M(x, k),
    'sx': lambda ex, st, n, x, k: ir.sx(ir.as_int(x), ir.as_int(k)),
    'ite': lambda ex, st, n, c, a, b: merge_values(ex.truth(c), a, b),
    'implies': lambda ex, st, n, a, b: ir.implies(ex.truth(a), ex.truth(b)),
    'iff': lambda ex, st, n, a, b: ir.iff(ex.truth(a), ex.truth(b)),
    'band': lambda ex, st, n, a, b: ir.band(a, b),
    'bor': lambda ex, st, n, a, b: ir.bor(a, b),
    'bxor': lambda ex, st, n, a, b: ir.bxor(a, b),
    'fdiv': lambda ex, st, n, a, b: ir.fdiv(a, b),
    'b2i': lambda ex, st, n, a: ir.as_int(ex.truth(a)),
}


def _b_all(ex, st, n, *a):
    raise Unsupported('all()')


def merge_outcomes(outs, merge_states=merge_states):
    """merge the normal terminations (fall / return) of a function into one state and one value"""
    if not outs:
        return None, None, ir.FALSE
    acc = outs[-1]
    st, val, cond = acc.state, acc.value, acc.state.pc
    for o in reversed(outs[:-1]):
        c = o.state.pc
        st2 = merge_states(c, o.state, st)
        if o.value is None and val is None:
            v2 = None
        else:
            v2 = merge_values(c, o.value, val, 'return value')
        st, val = st2, v2
        cond = ir.bor_(c, cond)
    st.pc = cond
    return st, val, cond


def get_function(path, qualname):
    """locate Class.method or function in a source file of /repo; returns (FunctionDef, source segment)"""
    src = open(path).read()
    tree = ast.parse(src)
    parts = qualname.split('.')
    body = tree.body
    node = None
    for p in parts:
        node = None
        for n in body:
            if isinstance(n, (ast.ClassDef, ast.FunctionDef)) and n.name == p:
                node = n   # last definition wins, as in Python
        if node is None:
            raise KeyError('%s not found in %s' % (qualname, path))
        body = node.body
    return node, ast.get_source_segment(src, node)
