"""pvc.heap -- heap-mode symbolic execution (DESIGN 2.1 "heap mode") for the kernel functions of
py4hw/base.py, py4hw/simulation.py, py4hw/debug.py, py4hw/logic/simulation.py.

Objects are references (integers, None == 0).  Every attribute is a *map* from references to values
(Dafny style); list attributes are a length map plus a two-argument element map, dict attributes a
two-argument membership map plus a value map.  A map is (base uninterpreted function, list of guarded
point updates); reading produces an if-then-else chain over the updates, havoc replaces the base by a fresh
function.  Calls to methods are replaced by the callee's contract (requires asserted, modifies havoc'ed,
ensures assumed); loops need an invariant from the sidecar, which may quantify over references / indices.
"""
import ast, itertools
from . import ir, symexec
from .ir import T
from .symexec import Unsupported, ShapeError, Obligation, Outcome, State, merge_values

_fresh = itertools.count()
_intern = {}


def intern(s):
    """strings used as names / dict keys are atoms: equality only"""
    if s not in _intern:
        _intern[s] = 1000003 + len(_intern)
    return ir.const(_intern[s])


class FMap:
    """map of arity n: reads are  ite(cond_k and args == args_k, val_k, ... base(args))"""

    def __init__(self, base, arity, updates=()):
        self.base = base; self.arity = arity; self.updates = tuple(updates)

    def read(self, *args):
        args = [ir.as_int(a) for a in args]
        assert len(args) == self.arity, (self.base, args)
        r = ir.uf(self.base, *args)
        for (cond, uargs, val) in self.updates:
            same = ir.band_(cond, *[ir.eq(a, b) for a, b in zip(args, uargs)])
            r = ir.ite(same, val, r)
        return r

    def write(self, args, val, cond=ir.TRUE):
        args = tuple(ir.as_int(a) for a in args)
        return FMap(self.base, self.arity, self.updates + ((cond, args, ir.as_int(val)),))

    def __repr__(self):
        return '<FMap %s/%d +%d>' % (self.base, self.arity, len(self.updates))


def merge_fmaps(c, a, b):
    if a is b: return a
    if a.base == b.base and a.arity == b.arity:
        k = 0
        while k < len(a.updates) and k < len(b.updates) and a.updates[k] is b.updates[k]:
            k += 1
        ups = list(a.updates[:k])
        ups += [(ir.band_(c, cond), args, val) for (cond, args, val) in a.updates[k:]]
        ups += [(ir.band_(ir.not_(c), cond), args, val) for (cond, args, val) in b.updates[k:]]
        return FMap(a.base, a.arity, ups)
    raise Unsupported('merge of maps with different bases (%s / %s)' % (a.base, b.base))


class ListH:
    def __init__(self, owner, attr):
        self.owner = ir.as_int(owner); self.attr = attr


class DictH:
    def __init__(self, owner, attr):
        self.owner = ir.as_int(owner); self.attr = attr


class KeysH:
    def __init__(self, d): self.d = d


class ValuesH:
    def __init__(self, d): self.d = d


class ClassRef:
    def __init__(self, name): self.name = name

    def __repr__(self): return '<class %s>' % self.name


class Opaque:
    def __init__(self, what): self.what = what


SPEC_UFS = {'Fstate', 'Fnext', 'Fout', 'depth', 'dom', 'cidx', 'kidx', 'pidx', 'nearest', 'wireof',
            # abstract rationals (carrier: any injection Q -> Z): value of a (sign, exponent, mantissa, precision) tuple and the field operations
            'val', 'qadd', 'qsub', 'qmul', 'qneg', 'qcmp',
            # abstract result of helper.signExtend (proved in scalar mode against the two's complement spec)
            'sxt'}
ACCESSORS = {'getSinks': 'sinks', 'getSource': 'source', 'getWidth': 'width'}
SPEC_PREDS = {'dep', 'propagatable', 'clockable', 'integ', 'pow2p', 'primitive'}


def items_of(ex, st, ref):
    return ListH(ref, '#items')
LIST_ATTRS = {'uniqueWires', 'inPorts', 'outPorts', 'inOutPorts', 'sinks', 'sources', 'propagatables', 'clockables', 'listeners',
              'prepared', 'wires', 'ports', 'sourceToSink', 'sinkToSource'}
DICT_ATTRS = {'children', '_wires', 'clockDrivers', 'parameters', 'data'}
NONE = ir.const(0)


class HeapExec(symexec.Executor):
    def __init__(self, contracts=None, loop_invariants=None, list_attrs=None, dict_attrs=None, classes=None, ghost=None, plain_attrs=()):
        super().__init__(summaries={}, loop_invariants=loop_invariants or {})
        self.contracts = contracts or {}        # method / function name -> HContract
        self.list_attrs = (set(LIST_ATTRS) | set(list_attrs or ())) - set(plain_attrs)     # plain_attrs: fields holding a *reference* to a list object
        self.dict_attrs = set(DICT_ATTRS) | set(dict_attrs or ())
        self.classes = set(classes or ()) | {'Wire', 'Logic', 'Exception', 'BidirWire', 'HWSystem', 'Simulator', 'ClockDriverSimulator', 'str', 'int', 'FieldInspector', 'ValueFormatter', 'Waveform', 'InPort', 'OutPort', 'FPNum', 'FixedPoint', 'float', 'list'}
        self.ghost = ghost or {}
        self.written = set()                    # map names written (for frame obligations)
        self.known_refs = []                    # references a newly allocated object is known to differ from
        self._len_axioms = set()

    def merge_states(self, c, sa, sb):
        return merge_states_heap(c, sa, sb, self)

    def merge_any_maps(self, c, a, b):
        """maps with different histories (one side was havoc'ed by a callee contract): a fresh map defined pointwise"""
        nm = a.base.split('!')[0]
        fresh = FMap('%s!%d' % (nm, next(_fresh)), a.arity)
        vs = ['mg%d_%d' % (next(_fresh), i) for i in range(a.arity)]
        args = [ir.var(v) for v in vs]
        self.assumptions.append(ir.forall(vs, ir.eq(fresh.read(*args), ir.ite(c, a.read(*args), b.read(*args)))))
        return fresh

    def oblige(self, kind, st, goal, node=None, note=''):
        goal = ir.truth(goal)
        if goal.op == 'and' and ('.inv.' in kind or kind.startswith('post')):
            for i, g in enumerate(goal.args):
                super().oblige('%s.%d' % (kind, i), st, g, node, note)
            return
        super().oblige(kind, st, goal, node, note)

    # ------------------------------------------------------------------ maps
    def _len_nonneg(self, m):
        # a Python list never has a negative length: a fact about every list-length map, in every state
        if m.base.startswith('len:') and m.base not in self._len_axioms:
            self._len_axioms.add(m.base)
            o = 'o%d' % next(_fresh)
            self.assumptions.append(ir.forall([o], ir.ge(FMap(m.base, m.arity).read(*([ir.var(o)] * m.arity)), 0)))

    def fmap(self, st, name, arity):
        key = ('M', name)
        if key not in st.heap:
            st.heap[key] = FMap(name, arity)
        self._len_nonneg(st.heap[key])
        return st.heap[key]

    def read_field(self, st, obj, attr):
        return self.fmap(st, 'f:' + attr, 1).read(obj)

    def write_field(self, st, obj, attr, val):
        m = self.fmap(st, 'f:' + attr, 1)
        st.heap[('M', 'f:' + attr)] = m.write((obj,), val)
        self.written.add('f:' + attr)

    def list_len(self, st, lst):
        return self.fmap(st, 'len:' + lst.attr, 1).read(lst.owner)

    def list_at(self, st, lst, i):
        return self.fmap(st, 'el:' + lst.attr, 2).read(lst.owner, i)

    def havoc_map(self, st, name):
        key = ('M', name)
        old = st.heap.get(key)
        if old is None:
            arity = 2 if name.split(':')[0] in ('el', 'has', 'val') else 1
        else:
            arity = old.arity
        st.heap[key] = FMap('%s!%d' % (name.split('!')[0], next(_fresh)), arity)
        self._len_nonneg(st.heap[key])
        self.written.add(name)

    # ------------------------------------------------------------------ expressions
    def e_Constant(self, n, st):
        v = n.value
        if isinstance(v, bool): return ir.bconst(v)
        if isinstance(v, int): return ir.const(v)
        if v is None: return NONE
        if isinstance(v, str): return StrConst(v)
        raise Unsupported('constant %r' % (v,))

    def e_Name(self, n, st):
        if n.id in st.loc:
            v = st.loc[n.id]
            if isinstance(v, symexec.MaybeUnbound):
                # bound on some paths only: reading it is an obligation (NameError otherwise), its value the bound one
                def res(x):
                    if x is symexec.UNBOUND: return ir.FALSE, None
                    if isinstance(x, symexec.MaybeUnbound):
                        ca, va = res(x.a); cb, vb = res(x.b)
                        cond = ir.bor_(ir.band_(x.c, ca), ir.band_(ir.not_(x.c), cb))
                        if va is None: return cond, vb
                        if vb is None: return cond, va
                        if not (isinstance(va, T) and isinstance(vb, T)): raise Unsupported('partially bound local %s of mixed kinds' % n.id)
                        return cond, ir.ite(x.c, va, vb)
                    return ir.TRUE, x
                cond, val = res(v)
                if val is None: raise Unsupported('unbound local %s (line %s)' % (n.id, n.lineno))
                self.oblige('local_bound[%s]' % n.id, st, cond, n, 'NameError otherwise')
                return val
            if v is symexec.UNBOUND:
                raise Unsupported('possibly unbound local %s (line %s)' % (n.id, n.lineno))
            return v
        if n.id in self.classes: return ClassRef(n.id)
        if n.id in self.globals: return self.globals[n.id]
        raise Unsupported('unknown name %s (line %s)' % (n.id, getattr(n, 'lineno', '?')))

    def get_attr(self, base, attr, st, node=None):
        if isinstance(base, ClassRef):
            if attr in self.list_attrs: return ListH(NONE, base.name + '.' + attr)
            return symexec.BoundMethod(base, attr)
        if isinstance(base, T) and base.sort == 'i':
            if attr in self.list_attrs: return ListH(base, attr)
            if attr in self.dict_attrs: return DictH(base, attr)
            if ('m:' + attr) in self.contracts or attr in self.contracts.get('__methods__', ()):
                return symexec.BoundMethod(base, attr)
            if attr.startswith('__'): attr = '#' + attr[2:]      # ghost fields are written o.__name in contracts
            return self.read_field(st, base, attr)
        if isinstance(base, DictH) and attr == '__keys':
            return ListH(base.owner, '#keys:' + base.attr)      # ghost: the dict's keys in iteration order
        if isinstance(base, (ListH, DictH, KeysH, StrConst)):
            return symexec.BoundMethod(base, attr)
        raise Unsupported('attribute .%s of %r (line %s)' % (attr, base, getattr(node, 'lineno', '?')))

    def e_Attribute(self, n, st):
        return self.get_attr(self.ev(n.value, st), n.attr, st, n)

    def e_IfExp(self, n, st):
        c = self.truth(self.ev(n.test, st))
        if c.op == 'bconst':
            return self.ev(n.body if c.val else n.orelse, st)
        # a branch outside the modelled subset must be unreachable: that is an obligation, the other branch the value
        try:
            b = self.ev(n.orelse, st)
        except Unsupported:
            self.oblige('ifexp_else_unreachable', st, c, n, 'the else branch is outside the modelled subset')
            return self.ev(n.body, st)
        try:
            a = self.ev(n.body, st)
        except Unsupported:
            self.oblige('ifexp_then_unreachable', st, ir.not_(c), n, 'the then branch is outside the modelled subset')
            return b
        return merge_values(c, a, b, 'conditional expression')

    def e_List(self, n, st):
        if n.elts: raise Unsupported('non-empty list literal')
        return 'EMPTY_LIST'

    def e_Dict(self, n, st):
        if n.keys: raise Unsupported('non-empty dict literal')
        return 'EMPTY_DICT'

    def subscript(self, base, idx, st, n=None):
        if isinstance(base, tuple) and isinstance(idx, T) and ir.is_const(idx) and 0 <= idx.val < len(base):
            return base[idx.val]            # *args of a fixed arity
        if isinstance(base, ListH):
            idx = ir.as_int(idx)
            self.oblige('index_in_range', st, ir.band_(ir.ge(idx, 0), ir.lt(idx, self.list_len(st, base))), n, 'list index')
            return self.list_at(st, base, idx)
        if isinstance(base, DictH):
            k = self.key(idx)
            present = ir.ne(self.fmap(st, 'has:' + base.attr, 2).read(base.owner, k), 0)
            if getattr(self, '_try_conds', None) is not None:
                self._try_conds.append(present)       # inside try: a missing key is the exceptional path, not an obligation
            else:
                self.oblige('key_present', st, present, n, 'dict key')
            return self.fmap(st, 'val:' + base.attr, 2).read(base.owner, k)
        raise Unsupported('subscript of %r' % (base,))

    def key(self, k):
        if isinstance(k, StrConst): return intern(k.s)
        if isinstance(k, T): return ir.as_int(k)
        raise Unsupported('dict key %r' % (k,))

    def truth(self, v):
        if isinstance(v, (ListH,)):
            raise Unsupported('truth of list')
        if isinstance(v, StrConst): return ir.bconst(len(v.s) > 0)
        if isinstance(v, ClassRef): return ir.TRUE
        return super().truth(v)

    def compare(self, op, l, r, n=None):
        if op in ('In', 'NotIn'):
            if isinstance(r, KeysH) or isinstance(r, DictH):
                d = r.d if isinstance(r, KeysH) else r
                res = ir.ne(self.fmap(self._st, 'has:' + d.attr, 2).read(d.owner, self.key(l)), 0)
            elif isinstance(r, ListH):
                j = 'j%d' % next(_fresh)
                jv = ir.var(j)
                res = ir.exists([j], ir.band_(ir.ge(jv, 0), ir.lt(jv, self.list_len(self._st, r)), ir.eq(self.list_at(self._st, r, jv), ir.as_int(l))))
            else:
                raise Unsupported('in %r' % (r,))
            return res if op == 'In' else ir.not_(res)
        if isinstance(l, ClassRef) and isinstance(r, ClassRef) and op in ('Eq', 'NotEq', 'Is', 'IsNot'):
            return ir.bconst((l.name == r.name) == (op in ('Eq', 'Is')))
        if isinstance(l, StrConst) or isinstance(r, StrConst):
            l = intern(l.s) if isinstance(l, StrConst) else l
            r = intern(r.s) if isinstance(r, StrConst) else r
        if op in ('Is', 'IsNot', 'Eq', 'NotEq') and isinstance(l, T) and isinstance(r, T):
            f = ir.eq if op in ('Is', 'Eq') else ir.ne
            return f(l, r)
        return super().compare(op, l, r, n)

    def e_Compare(self, n, st):
        self._st = st
        return super().e_Compare(n, st)

    def e_Call(self, n, st):
        self._st = st
        f = n.func
        if isinstance(f, ast.Name):
            nm = f.id
            if nm == 'old':
                tmp = self.old_state.clone()
                tmp.loc = dict(self.old_state.loc); tmp.loc.update(getattr(self, 'bound', {}))
                if 'result' in st.loc: tmp.loc['result'] = st.loc['result']      # old(result.f): the pre-state field of the returned reference
                return self.ev(n.args[0], tmp)
            if nm in ('forall', 'exists'):
                lam = n.args[0]
                if not isinstance(lam, ast.Lambda): raise Unsupported('quantifier needs a lambda')
                names = []
                saved = dict(st.loc)
                saved_bound = dict(getattr(self, 'bound', {}))
                self.bound = dict(saved_bound)
                for a in lam.args.args:
                    bn = '%s_q%d' % (a.arg, next(_fresh)); names.append(bn); st.loc[a.arg] = ir.var(bn); self.bound[a.arg] = st.loc[a.arg]
                saved_pats = getattr(self, '_pats', None); self._pats = []
                try:
                    body = self.truth(self.ev(lam.body, st))
                    pats = self._pats
                finally:
                    st.loc = saved; self.bound = saved_bound; self._pats = saved_pats
                return ir.forall(names, body, pats) if nm == 'forall' else ir.exists(names, body)
            if nm == 'pat':
                # pat(t1, ..., body): body, with t1... recorded as the instantiation trigger of the enclosing forall
                if getattr(self, '_pats', None) is None: raise Unsupported('pat() outside a quantifier')
                self._pats.extend(ir.as_int(self.ev(a, st)) for a in n.args[:-1])
                return self.ev(n.args[-1], st)
            if nm == 'isinstance':
                x = self.ev(n.args[0], st); cls = self.ev(n.args[1], st)
                if isinstance(x, StrConst): return ir.bconst(isinstance(cls, ClassRef) and cls.name == 'str')
                if isinstance(cls, ClassRef) and cls.name == 'int' and getattr(self, 'numeric_int', False) and isinstance(x, T):
                    return ir.TRUE          # contract option: numeric values are Python ints (the model has no floats)
                if isinstance(cls, ClassRef) and isinstance(x, T): return ir.ufb('isinstance_' + cls.name, x)
                raise Unsupported('isinstance form')
            if nm == 'len':
                x = self.ev(n.args[0], st)
                if isinstance(x, ListH): return self.list_len(st, x)
                if isinstance(x, tuple) and not (x and x[0] == 'range'): return ir.const(len(x))
                if isinstance(x, T) and x.sort == 'i': return self.list_len(st, ListH(x, '#items'))     # a reference to a list object
                if isinstance(x, StrConst): return ir.const(len(x.s))
                raise Unsupported('len of %r' % (x,))
            if nm == 'range':
                return symexec._b_range(self, st, n, *[self.ev(a, st) for a in n.args])
            if nm in ('print',):
                self.dropped.append('print@%s' % n.lineno); return NONE
            if nm == 'type' and getattr(self, 'numeric_int', False) and len(n.args) == 1 and isinstance(self.ev(n.args[0], st), T):
                return ClassRef('int')      # contract option: numeric values are Python ints
            if nm == 'super' and not n.args:
                return ClassRef('super')
            if nm in ('type', 'str', 'format'):
                return Opaque(nm)
            if nm in self.ghost:
                return self.ghost[nm](self, st, *[self.ev(a, st) for a in n.args])
            if nm == 'items':
                return ListH(ir.as_int(self.ev(n.args[0], st)), '#items')
            if nm == 'epoch':
                return self.read_field(st, NONE, '#epoch')      # ghost: identifies the current wire-value map
            if nm in SPEC_UFS:
                return ir.uf('spec_' + nm, *[ir.as_int(self.ev(a, st)) for a in n.args])
            if nm in SPEC_PREDS:
                return ir.ufb('spec_' + nm, *[ir.as_int(self.ev(a, st)) for a in n.args])
            if nm in symexec.BUILTINS and nm not in ('len', 'range'):
                return symexec.BUILTINS[nm](self, st, n, *[self.ev(a, st) for a in n.args])
            if ('f:' + nm) in self.contracts:
                return self.apply_contract(self.contracts['f:' + nm], None, [self.ev(a, st) for a in n.args], st, n)
            if ('new:%s/%d' % (nm, len(n.args))) in self.contracts:
                # allocation: a fresh reference, distinct from None, from the reference arguments of the function under
                # proof and from every object allocated earlier in this execution; its fields start arbitrary and are
                # constrained only by the contract of __init__ (proved separately for this number of arguments)
                args = [self.ev(a, st) for a in n.args]
                r = self.fresh('new_' + nm)
                am = self.fmap(st, 'f:#alloc', 1)       # ghost: the set of objects that exist (o.__alloc in contracts)
                self.assumptions.append(ir.implies(st.pc, ir.band_(ir.ne(r, NONE), ir.eq(am.read(r), 0), *[ir.ne(r, x) for x in self.known_refs])))
                st.heap[('M', 'f:#alloc')] = am.write((r,), 1); self.written.add('f:#alloc')
                self.known_refs.append(r)
                self.apply_contract(self.contracts['new:%s/%d' % (nm, len(n.args))], r, args, st, n)
                return r
            if nm in self.classes and nm == 'Exception':
                return Opaque('exception')
            raise Unsupported('call to %s (line %s)' % (nm, n.lineno))
        if isinstance(f, ast.Attribute):
            base = self.ev(f.value, st)
            meth = f.attr
            if isinstance(base, StrConst):
                return Opaque('formatted string')
            if isinstance(base, Opaque):
                return Opaque('opaque call')
            args = [self.ev(a, st) for a in n.args]
            if isinstance(base, ListH):
                return self.list_method(base, meth, args, st, n)
            if isinstance(base, DictH):
                if meth == 'keys': return KeysH(base)
                if meth == 'values': return ValuesH(base)
                raise Unsupported('dict method ' + meth)
            if isinstance(base, ClassRef):
                key = 'm:%s.%s' % (base.name, meth)
                if key in self.contracts:
                    return self.apply_contract(self.contracts[key], st.loc.get('self') if base.name == 'super' else None, args, st, n)
                raise Unsupported('call %s.%s' % (base.name, meth))
            if isinstance(base, T):
                if ('acc:' + meth) in self.contracts and not args:
                    # a trivial accessor (return self.<attr>): proved separately where it matters; here by name
                    return self.get_attr(base, ACCESSORS[meth], st, n)
                key = 'm:' + meth
                if key in self.contracts:
                    return self.apply_contract(self.contracts[key], base, args, st, n)
                if meth == 'append' and len(args) == 1:
                    # a list object held in a dict / field: the reference itself owns the element map '#items'
                    return self.list_method(ListH(base, '#items'), 'append', args, st, n)
                raise Unsupported('method %s on a reference has no contract (line %s)' % (meth, n.lineno))
        raise Unsupported('call form (line %s)' % n.lineno)

    def list_method(self, lst, meth, args, st, n):
        if meth == 'append':
            if isinstance(args[0], StrConst): args = [intern(args[0].s)]
            elif isinstance(args[0], Opaque): args = [self.fresh('opaque')]
            ln = self.list_len(st, lst)
            el = self.fmap(st, 'el:' + lst.attr, 2); lm = self.fmap(st, 'len:' + lst.attr, 1)
            st.heap[('M', 'el:' + lst.attr)] = el.write((lst.owner, ln), args[0])
            st.heap[('M', 'len:' + lst.attr)] = lm.write((lst.owner,), ir.add(ln, 1))
            self.written.update(['el:' + lst.attr, 'len:' + lst.attr])
            return NONE
        if meth == 'index':
            x = ir.as_int(args[0])
            j = 'j%d' % next(_fresh); jv = ir.var(j)
            ln = self.list_len(st, lst)
            present = ir.exists([j], ir.band_(ir.ge(jv, 0), ir.lt(jv, ln), ir.eq(self.list_at(st, lst, jv), x)))
            self.oblige('index_of_present_element', st, present, n, '.index() raises ValueError otherwise')
            r = self.fresh('idx')
            k = 'k%d' % next(_fresh); kv = ir.var(k)
            self.assumptions.append(ir.implies(ir.band_(st.pc, present), ir.band_(
                ir.ge(r, 0), ir.lt(r, ln), ir.eq(self.list_at(st, lst, r), x),
                ir.forall([k], ir.implies(ir.band_(ir.ge(kv, 0), ir.lt(kv, r)), ir.ne(self.list_at(st, lst, kv), x))))))
            return r
        raise Unsupported('list method %s (line %s)' % (meth, n.lineno))

    # ------------------------------------------------------------------ contracts
    def apply_contract(self, c, selfref, args, st, n):
        """callee contract: assert requires; havoc modifies; assume ensures (normal return) -- exceptional exits of
        the callee are modelled by `raises`: under that condition the caller also exits exceptionally"""
        env = dict(zip(c.args, args))
        if selfref is not None: env['self'] = selfref
        pre = st.clone()
        saved_loc = st.loc
        def evs(e, state, extra=None):
            loc = dict(env)
            if extra: loc.update(extra)
            tmp = state.loc; state.loc = loc
            saved_old = self.old_state; self.old_state = prev_old[0]
            try:
                return self.eval_spec(e, state)
            finally:
                state.loc = tmp; self.old_state = saved_old
        prev_old = [None]
        for r in c.requires:
            self.oblige('callee_requires[%s]' % c.name, st, self.truth(evs(r, st)), n, r)
        raise_cond = ir.FALSE
        if c.raises is not None:
            raise_cond = self.truth(evs(c.raises, st))
        for m in c.modifies:
            self.havoc_map(st, m)
        res = None
        if c.returns == 'list':
            nm = '#ret:%s@%s' % (c.name, getattr(n, 'lineno', 0))
            res_list = ListH(NONE, nm)
            self.havoc_map(st, 'len:' + nm); self.havoc_map(st, 'el:' + nm)
            self.assumptions.append(ir.implies(st.pc, ir.ge(self.list_len(st, res_list), 0)))
            prev_old[0] = pre; pre.loc = dict(env)
            for e in c.ensures:      # `result` is the returned list: result[k], len(result)
                self.assumptions.append(ir.implies(st.pc, self.truth(evs(e, st, {'result': res_list}))))
            return res_list
        res_tuple = None
        if isinstance(c.returns, int) and not isinstance(c.returns, bool) and c.returns > 1:
            # a tuple of that many values: result0, result1, ... in the ensures
            res_tuple = tuple(self.fresh('ret%d_%s' % (k, c.name.split('.')[-1])) for k in range(c.returns))
        elif c.returns:
            res = self.fresh('ret_' + c.name.split('.')[-1])
        prev_old[0] = pre
        pre.loc = dict(env)
        extra_loc = {'result': res} if res is not None else ({'result%d' % k: v for k, v in enumerate(res_tuple)} if res_tuple else None)
        for e in c.ensures:
            self.assumptions.append(ir.implies(ir.band_(st.pc, ir.not_(raise_cond)), self.truth(evs(e, st, extra_loc))))
        if c.raises is not None and not (raise_cond.op == 'bconst' and not raise_cond.val):
            self.pending_raise = getattr(self, 'pending_raise', [])
            self.pending_raise.append((ir.band_(st.pc, raise_cond), pre, c.name, n))
            st.pc = ir.band_(st.pc, ir.not_(raise_cond))
        if res_tuple is not None: return res_tuple
        return res if res is not None else NONE

    # ------------------------------------------------------------------ statements
    def assign_to(self, target, v, st):
        if isinstance(target, ast.Name):
            st.loc[target.id] = v
            return
        if isinstance(target, ast.Tuple):
            if not (isinstance(v, tuple) and len(v) == len(target.elts)): raise Unsupported('tuple assignment of %r' % (v,))
            for t, x in zip(target.elts, v): self.assign_to(t, x, st)
            return
        if isinstance(target, ast.Attribute):
            base = self.ev(target.value, st)
            attr = target.attr
            if isinstance(base, ClassRef) and attr in self.list_attrs:
                lst = ListH(NONE, base.name + '.' + attr)
                return self._assign_list(lst, v, st)
            if isinstance(base, T):
                if attr in self.list_attrs:
                    return self._assign_list(ListH(base, attr), v, st)
                if attr in self.dict_attrs:
                    if v != 'EMPTY_DICT': raise Unsupported('dict attribute assigned a non-empty dict')
                    # fresh empty dict for this owner: membership cleared for every key
                    nm = 'has:' + attr
                    m = self.fmap(st, nm, 2)
                    self.ghost_clear = getattr(self, 'ghost_clear', [])
                    fresh = FMap('%s!%d' % (nm, next(_fresh)), 2)
                    k = 'k%d' % next(_fresh); o = 'o%d' % next(_fresh)
                    self.assumptions.append(ir.forall([o, k], ir.eq(fresh.read(ir.var(o), ir.var(k)),
                                                                     ir.ite(ir.eq(ir.var(o), base), 0, m.read(ir.var(o), ir.var(k))))))
                    st.heap[('M', nm)] = fresh; self.written.add(nm)
                    return
                if isinstance(v, (StrConst,)): v = intern(v.s)
                if isinstance(v, Opaque): v = self.fresh('opaque')
                if not isinstance(v, (T, int, bool)): raise Unsupported('store of %r into field %s' % (v, attr))
                self.write_field(st, base, attr, v)
                return
        if isinstance(target, ast.Subscript):
            base = self.ev(target.value, st)
            idx = self.ev(target.slice, st)
            if isinstance(base, DictH):
                k = self.key(idx)
                if v == 'EMPTY_LIST':
                    # a new list object: a fresh reference outside the alloc set, with no elements
                    r = self.fresh('new_list')
                    am = self.fmap(st, 'f:#alloc', 1)
                    self.assumptions.append(ir.implies(st.pc, ir.band_(ir.ne(r, NONE), ir.eq(am.read(r), 0), *[ir.ne(r, x) for x in self.known_refs])))
                    st.heap[('M', 'f:#alloc')] = am.write((r,), 1); self.written.add('f:#alloc')
                    self.known_refs.append(r)
                    lm = self.fmap(st, 'len:#items', 1); st.heap[('M', 'len:#items')] = lm.write((r,), 0); self.written.add('len:#items')
                    v = r
                if isinstance(v, StrConst): v = intern(v.s)
                hm = self.fmap(st, 'has:' + base.attr, 2); vm = self.fmap(st, 'val:' + base.attr, 2)
                st.heap[('M', 'has:' + base.attr)] = hm.write((base.owner, k), 1)
                st.heap[('M', 'val:' + base.attr)] = vm.write((base.owner, k), v)
                self.written.update(['has:' + base.attr, 'val:' + base.attr])
                return
            if isinstance(base, ListH):
                idx = ir.as_int(idx)
                self.oblige('index_in_range', st, ir.band_(ir.ge(idx, 0), ir.lt(idx, self.list_len(st, base))), target, 'list store')
                el = self.fmap(st, 'el:' + base.attr, 2)
                st.heap[('M', 'el:' + base.attr)] = el.write((base.owner, idx), v)
                self.written.add('el:' + base.attr)
                return
        raise Unsupported('assignment target (line %s)' % getattr(target, 'lineno', '?'))

    def _assign_list(self, lst, v, st):
        if v != 'EMPTY_LIST': raise Unsupported('list attribute assigned something other than []')
        lm = self.fmap(st, 'len:' + lst.attr, 1)
        st.heap[('M', 'len:' + lst.attr)] = lm.write((lst.owner,), 0)
        self.written.add('len:' + lst.attr)

    def s_Assign(self, s, st):
        self.pending_raise = []
        v = self.ev(s.value, st)
        if v == 'EMPTY_LIST' and isinstance(s.targets[0], ast.Name):
            # local list: its own attribute name, owner 0
            nm = '#local:%s@%d' % (s.targets[0].id, s.lineno)
            lst = ListH(NONE, nm)
            self._assign_list(lst, 'EMPTY_LIST', st)
            st.loc[s.targets[0].id] = lst
            return [Outcome('fall', st)]
        for t in s.targets:
            self.assign_to(t, v, st)
        return self._with_pending(st)       # a callee of the right-hand side may raise: that exit is an outcome of its own

    def s_Delete(self, s, st):
        for t in s.targets:
            if not isinstance(t, ast.Subscript): raise Unsupported('del form')
            base = self.ev(t.value, st); k = self.key(self.ev(t.slice, st))
            if not isinstance(base, DictH): raise Unsupported('del on non-dict')
            hm = self.fmap(st, 'has:' + base.attr, 2)
            self.oblige('key_present', st, ir.ne(hm.read(base.owner, k), 0), s, 'del of a missing key raises KeyError')
            st.heap[('M', 'has:' + base.attr)] = hm.write((base.owner, k), 0)
            self.written.add('has:' + base.attr)
        return [Outcome('fall', st)]

    def s_Expr(self, s, st):
        if isinstance(s.value, ast.Constant):
            self.dropped.append('docstring@%s' % s.lineno); return [Outcome('fall', st)]
        self.pending_raise = []
        self.ev(s.value, st)
        return self._with_pending(st)

    def _with_pending(self, st):
        outs = []
        for (cond, pre, name, n) in getattr(self, 'pending_raise', []):
            ex = pre.clone(); ex.loc = dict(st.loc); ex.pc = cond
            outs.append(Outcome('raise', ex, exc='raised by ' + name, lineno=getattr(n, 'lineno', None)))
        self.pending_raise = []
        outs.append(Outcome('fall', st))
        return outs

    def s_Try(self, s, st):
        """the one idiom of the kernel: `try: <one statement reading dict entries> except: <handler>` -- the body has no side
        effect before a KeyError can occur, so the handler starts from the state at the `try`"""
        if s.finalbody or s.orelse or len(s.handlers) != 1 or len(s.body) != 1:
            raise Unsupported('try/except shape (line %s)' % s.lineno)
        h = s.handlers[0]
        if not (h.type is None or (isinstance(h.type, ast.Name) and h.type.id in ('KeyError', 'Exception'))) or h.name is not None:
            raise Unsupported('except clause (line %s)' % s.lineno)
        if not isinstance(s.body[0], (ast.Return, ast.Assign)) or any(isinstance(x, ast.Call) for x in ast.walk(s.body[0])):
            raise Unsupported('try body with calls (line %s)' % s.lineno)
        pre = st.clone()
        self._try_conds = []
        try:
            outs = self.block(s.body, st)
            conds = self._try_conds
        finally:
            self._try_conds = None
        ok = ir.band_(*conds) if conds else ir.TRUE
        for o in outs: o.state.pc = ir.band_(o.state.pc, ok)
        pre.pc = ir.band_(pre.pc, ir.not_(ok))
        return outs + self.block(h.body, pre)

    # loops -----------------------------------------------------------------------------------
    def _loop_writes(self, body):
        """maps and locals possibly written by the loop body (syntactic, over-approximate)"""
        locs, maps = set(), set()
        for stn in body:
            for n in ast.walk(stn):
                if isinstance(n, (ast.Assign, ast.AugAssign)):
                    tg = n.targets if isinstance(n, ast.Assign) else [n.target]
                    for t in tg:
                        if isinstance(t, ast.Name): locs.add(t.id)
                        elif isinstance(t, ast.Attribute):
                            a = t.attr
                            if a in self.list_attrs: maps.add('len:' + a); maps.add('len:%s.%s' % (getattr(t.value, 'id', '?'), a))
                            else: maps.add('f:' + a)
                        elif isinstance(t, ast.Subscript):
                            b = t.value
                            a = b.attr if isinstance(b, ast.Attribute) else None
                            if a in self.list_attrs: maps.add('el:' + a)
                            elif a in self.dict_attrs: maps.update(['has:' + a, 'val:' + a])
                            elif isinstance(b, ast.Name): maps.add('@local:' + b.id)
                        elif isinstance(t, ast.Tuple):
                            for e in t.elts:
                                if isinstance(e, ast.Name): locs.add(e.id)
                if isinstance(n, ast.For):
                    for x in ast.walk(n.target):
                        if isinstance(x, ast.Name): locs.add(x.id)
                if isinstance(n, ast.Call) and isinstance(n.func, ast.Attribute):
                    m = n.func.attr
                    if m == 'append':
                        b = n.func.value
                        if isinstance(b, ast.Attribute): maps.update(['el:' + b.attr, 'len:' + b.attr])
                        elif isinstance(b, ast.Name): maps.add('@local:' + b.id)
                        else: maps.update(['el:#items', 'len:#items'])
                    c = self.contracts.get('m:' + m)
                    if c is not None: maps.update(c.modifies)
                    if isinstance(n.func.value, ast.Name):
                        c = self.contracts.get('m:%s.%s' % (n.func.value.id, m))
                        if c is not None: maps.update(c.modifies)
                if isinstance(n, ast.Call) and isinstance(n.func, ast.Name):
                    c = self.contracts.get('f:' + n.func.id)
                    if c is not None: maps.update(c.modifies)
        return locs, maps

    def _havoc_for_loop(self, st, locs, maps, tag):
        h = st.clone()
        for v in locs:
            cur = h.loc.get(v)
            if isinstance(cur, T) and cur.sort == 'b': h.loc[v] = ir.bvar('%s_%s_%d' % (tag, v, next(_fresh)))
            elif isinstance(cur, ListH): pass
            else: h.loc[v] = ir.var('%s_%s_%d' % (tag, v, next(_fresh)))
        for m in maps:
            if m.startswith('@local:'):
                lst = st.loc.get(m[7:])
                if isinstance(lst, ListH):
                    self.havoc_map(h, 'el:' + lst.attr); self.havoc_map(h, 'len:' + lst.attr)
                continue
            if ('M', m) in h.heap or True:
                self.havoc_map(h, m)
        return h

    def s_For(self, s, st):
        ordinal = self.loop_ordinal; self.loop_ordinal += 1
        it = self.ev(s.iter, st)
        values_of = None
        inv = self.loop_invariants.get(ordinal)
        if inv is None:
            raise Unsupported('loop %d needs an invariant (line %s)' % (ordinal, s.lineno))
        if isinstance(it, tuple) and it and it[0] == 'range':
            lo, hi, step = it[1]
            if not (ir.is_const(step) and step.val == 1): raise Unsupported('range step')
            elem = None
        elif isinstance(it, (ListH, T)):
            if isinstance(it, T): it = ListH(it, '#items')        # a reference to a list object: its elements are items(ref)
            lo = ir.const(0); hi = self.list_len(st, it); elem = it
        elif isinstance(it, (DictH, KeysH, ValuesH)):
            # iteration over dict keys / values in insertion order: modelled through the ghost key list of the dict
            d = it.d if isinstance(it, (KeysH, ValuesH)) else it
            elem = ListH(d.owner, '#keys:' + d.attr)
            lo = ir.const(0); hi = self.list_len(st, elem)
            if isinstance(it, ValuesH): values_of = d
        else:
            raise Unsupported('iteration over %r (line %s)' % (it, s.lineno))
        locs, maps = self._loop_writes(s.body)
        ivar = '_i%d' % ordinal
        tnames = [x.id for x in ast.walk(s.target) if isinstance(x, ast.Name)]
        for t in tnames: locs.discard(t)
        if elem is not None:
            if ('el:' + elem.attr) in maps or ('len:' + elem.attr) in maps:
                raise Unsupported('loop body modifies the list it iterates over (line %s)' % s.lineno)
        def bind(state, i):
            state.loc[ivar] = i
            if elem is None:
                self.assign_to(s.target, i, state)
            elif values_of is not None:
                self.assign_to(s.target, self.fmap(state, 'val:' + values_of.attr, 2).read(values_of.owner, self.list_at(state, elem, i)), state)
            else:
                self.assign_to(s.target, self.list_at(state, elem, i), state)
        nonempty = ir.lt(lo, hi)
        # init
        e0 = st.clone(); e0.loc[ivar] = lo
        self.oblige('loop%d.inv.init' % ordinal, e0, self.eval_spec(inv, e0), s)
        # arbitrary iteration
        h = self._havoc_for_loop(st, locs, maps, 'it%d' % ordinal)
        i = self.fresh('it%d_i' % ordinal)
        h.loc[ivar] = i
        hi_h = hi if elem is None else self.list_len(h, elem)
        h.pc = ir.band_(st.pc, self.truth(self.eval_spec(inv, h)), ir.le(lo, i), ir.lt(i, hi_h))
        bind(h, i)
        res = self.block(s.body, h)
        outs = []
        for o in res:
            if o.kind in ('fall', 'continue'):
                o.state.loc[ivar] = ir.add(i, 1)
                self.oblige('loop%d.inv.preserve' % ordinal, o.state, self.eval_spec(inv, o.state), s)
            elif o.kind == 'break':
                raise Unsupported('break in an invariant loop')
            else:
                outs.append(o)       # return / raise from inside the loop
        # exit
        ex = self._havoc_for_loop(st, locs, maps, 'ex%d' % ordinal)
        hi_x = hi if elem is None else self.list_len(ex, elem)
        ex.loc[ivar] = ir.ite(ir.lt(lo, hi_x), hi_x, lo)
        # the invariant at exit is a fact about the state reached when the loop completes *normally*: it is guarded by a
        # fresh completion flag that is part of the path condition of the continuation only (a body that raises or returns
        # never reaches the exit state, so the fact must not be visible to obligations of those paths)
        done = ir.ne(self.fresh('done%d' % ordinal), 0)
        self.assumptions.append(ir.implies(ir.band_(st.pc, done), self.truth(self.eval_spec(inv, ex))))
        ex.pc = ir.band_(st.pc, done)
        outs.append(Outcome('fall', ex))
        return outs

    def s_While(self, s, st):
        ordinal = self.loop_ordinal; self.loop_ordinal += 1
        inv = self.loop_invariants.get(ordinal)
        if inv is None: raise Unsupported('while loop %d needs an invariant (line %s)' % (ordinal, s.lineno))
        locs, maps = self._loop_writes(s.body)
        self.oblige('loop%d.inv.init' % ordinal, st, self.eval_spec(inv, st), s)
        h = self._havoc_for_loop(st, locs, maps, 'wh%d' % ordinal)
        c = self.truth(self.ev(s.test, h))
        h.pc = ir.band_(st.pc, self.truth(self.eval_spec(inv, h)), c)
        res = self.block(s.body, h)
        outs = []
        for o in res:
            if o.kind in ('fall', 'continue'):
                self.oblige('loop%d.inv.preserve' % ordinal, o.state, self.eval_spec(inv, o.state), s)
            elif o.kind == 'break':
                raise Unsupported('break in while')
            else:
                outs.append(o)
        ex = self._havoc_for_loop(st, locs, maps, 'wx%d' % ordinal)
        cx = self.truth(self.ev(s.test, ex))
        done = ir.ne(self.fresh('wdone%d' % ordinal), 0)
        self.assumptions.append(ir.implies(ir.band_(st.pc, done), ir.band_(self.truth(self.eval_spec(inv, ex)), ir.not_(cx))))
        ex.pc = ir.band_(st.pc, done)
        outs.append(Outcome('fall', ex))
        return outs


class StrConst:
    def __init__(self, s): self.s = s

    def __repr__(self): return 'str(%r)' % self.s


class HContract:
    def __init__(self, name, args=(), requires=(), modifies=(), ensures=(), returns=False, raises=None):
        self.name = name; self.args = list(args); self.requires = list(requires); self.modifies = list(modifies)
        self.ensures = list(ensures); self.returns = returns; self.raises = raises


def merge_states_heap(c, sa, sb, ex=None):
    s = State()
    s.pc = ir.bor_(sa.pc, sb.pc)
    for k in set(sa.loc) | set(sb.loc):
        a = sa.loc.get(k, symexec.UNBOUND); b = sb.loc.get(k, symexec.UNBOUND)
        if isinstance(a, ListH) and isinstance(b, ListH) and a.attr == b.attr and a.owner is b.owner:
            s.loc[k] = a
        else:
            s.loc[k] = merge_values(c, a, b, 'local ' + k)
    for k in set(sa.heap) | set(sb.heap):
        a = sa.heap.get(k); b = sb.heap.get(k)
        if k[0] == 'M':
            if a is None: a = FMap(k[1], b.arity)
            if b is None: b = FMap(k[1], a.arity)
            try:
                s.heap[k] = merge_fmaps(c, a, b)
            except Unsupported:
                if ex is None: raise
                s.heap[k] = ex.merge_any_maps(c, a, b)
        else:
            s.heap[k] = merge_values(c, a if a is not None else symexec.UNBOUND, b if b is not None else symexec.UNBOUND, str(k))
    return s
