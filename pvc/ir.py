"""pvc.ir -- hash-consed term language shared by the symbolic executor, the contract
language, the netlist composer and the Verilog semantics.

Sorts: 'i' (mathematical integer), 'b' (boolean), 'a' (array int -> int).
Every constructor constant-folds with *Python* semantics, so that evaluating a term whose
variables are all bound to constants is exactly a native CPython evaluation (this is what the
native replay and the engine differential rely on).

Three interpretations of one term:
  * to_z3_int   : z3 Int/Bool, pow2 as uninterpreted function + instantiated axioms (parametric widths)
  * to_z3_bv    : exact integer arithmetic in signed bit-vectors sized by interval analysis
  * evaluate    : native evaluation under an assignment
"""
import itertools

_table = {}
_counter = itertools.count()


class T:
    __slots__ = ('op', 'args', 'sort', 'val', 'id', '__weakref__')

    def __repr__(self):
        return show(self)

    # no __eq__ override: identity == structural equality thanks to hash-consing
    def __bool__(self):
        raise TypeError('symbolic term used as Python bool: ' + show(self)[:200])


def _mk(op, args, sort, val=None):
    key = (op, tuple(a.id for a in args), val)
    t = _table.get(key)
    if t is None:
        t = T()
        t.op = op; t.args = tuple(args); t.sort = sort; t.val = val; t.id = next(_counter)
        _table[key] = t
    return t


# ------------------------------------------------------------------ constructors
def const(n):
    if isinstance(n, bool):
        n = int(n)
    assert isinstance(n, int), n
    return _mk('const', (), 'i', n)


def bconst(b):
    return _mk('bconst', (), 'b', bool(b))


TRUE = bconst(True)
FALSE = bconst(False)
_var_rng = {}


def var(name, lo=None, hi=None):
    """integer variable; (lo,hi) inclusive declared range (assumed by every back end).  The range is
    part of the term's identity: the same name with another range is another term (the encoders
    refuse two such terms in one query)."""
    key = ('var', (), (name, lo, hi))
    t = _table.get(key)
    if t is None:
        t = T()
        t.op = 'var'; t.args = (); t.sort = 'i'; t.val = name; t.id = next(_counter)
        _table[key] = t
        _var_rng[t.id] = (lo, hi)
    return t


def var_range(t):
    return _var_rng.get(t.id, (None, None))


def bvar(name):
    return _mk('bvar', (), 'b', name)


def avar(name):
    return _mk('avar', (), 'a', name)


def is_const(t):
    return t.op == 'const'


def is_bconst(t):
    return t.op == 'bconst'


def lift(x):
    if isinstance(x, T):
        return x
    if isinstance(x, bool):
        return bconst(x)
    if isinstance(x, int):
        return const(x)
    raise TypeError('cannot lift %r' % (x,))


def as_int(t):
    """bool -> int coercion (Python: True == 1)"""
    t = lift(t)
    if t.sort == 'b':
        return ite(t, const(1), const(0))
    return t


def truth(t):
    t = lift(t)
    if t.sort == 'b':
        return t
    return ne(t, const(0))


def _fold2(op, a, b):
    x, y = a.val, b.val
    if op == 'add': return x + y
    if op == 'sub': return x - y
    if op == 'mul': return x * y
    if op == 'fdiv': return x // y
    if op == 'mod': return x % y
    if op == 'band': return x & y
    if op == 'bor': return x | y
    if op == 'bxor': return x ^ y
    if op == 'shl': return x << y
    if op == 'shr': return x >> y
    raise KeyError(op)


class EvalError(Exception):
    """constant folding hit a Python exception (division by zero, negative shift)"""


def _bin(op, a, b):
    a = as_int(a); b = as_int(b)
    if a.op == 'const' and b.op == 'const':
        try:
            return const(_fold2(op, a, b))
        except (ZeroDivisionError, ValueError, OverflowError, MemoryError) as e:
            raise EvalError('%s(%d,%d): %s' % (op, a.val, b.val, e))
    return None


def add(a, b):
    r = _bin('add', a, b)
    if r is not None: return r
    a = as_int(a); b = as_int(b)
    if a.op == 'const' and a.val == 0: return b
    if b.op == 'const' and b.val == 0: return a
    return _mk('add', (a, b), 'i')


def sub(a, b):
    r = _bin('sub', a, b)
    if r is not None: return r
    a = as_int(a); b = as_int(b)
    if b.op == 'const' and b.val == 0: return a
    if a is b: return const(0)
    return _mk('sub', (a, b), 'i')


def mul(a, b):
    r = _bin('mul', a, b)
    if r is not None: return r
    a = as_int(a); b = as_int(b)
    for x, y in ((a, b), (b, a)):
        if x.op == 'const':
            if x.val == 0: return const(0)
            if x.val == 1: return y
    if a.op != 'const' and b.op != 'const' and a.id > b.id:
        a, b = b, a          # commutative normal form: x*y and y*x are one term
    return _mk('mul', (a, b), 'i')


def neg(a):
    a = as_int(a)
    if a.op == 'const': return const(-a.val)
    return _mk('neg', (a,), 'i')


def fdiv(a, b):
    r = _bin('fdiv', a, b)
    if r is not None: return r
    a = as_int(a); b = as_int(b)
    if b.op == 'const' and b.val == 1: return a
    return _mk('fdiv', (a, b), 'i')


def mod(a, b):
    r = _bin('mod', a, b)
    if r is not None: return r
    a = as_int(a); b = as_int(b)
    if b.op == 'const' and b.val == 1: return const(0)
    return _mk('mod', (a, b), 'i')


def pow2(e):
    e = as_int(e)
    if e.op == 'const':
        if e.val < 0:
            raise EvalError('pow2 of negative constant %d' % e.val)
        if e.val > 1 << 16:
            raise EvalError('pow2 of huge constant')
        return const(1 << e.val)
    return _mk('pow2', (e,), 'i')


def _mask_width(t):
    """if t is syntactically 2**w - 1 return the term w, else None"""
    if t.op == 'const':
        v = t.val
        if v >= 0 and (v + 1) & v == 0:
            return const(v.bit_length())
        return None
    if t.op == 'sub' and t.args[1].op == 'const' and t.args[1].val == 1:
        p = t.args[0]
        if p.op == 'pow2': return p.args[0]
        if p.op == 'shl' and p.args[0].op == 'const' and p.args[0].val == 1: return p.args[1]
    if t.op == 'add' and t.args[1].op == 'const' and t.args[1].val == -1:
        p = t.args[0]
        if p.op == 'pow2': return p.args[0]
    return None


def band(a, b):
    r = _bin('band', a, b)
    if r is not None: return r
    a = as_int(a); b = as_int(b)
    if a is b: return a
    for x, y in ((a, b), (b, a)):
        if y.op == 'const' and y.val == 0: return const(0)
        if y.op == 'const' and y.val == -1: return x
    return _mk('band', (a, b), 'i')


def bor(a, b):
    r = _bin('bor', a, b)
    if r is not None: return r
    a = as_int(a); b = as_int(b)
    if a is b: return a
    for x, y in ((a, b), (b, a)):
        if y.op == 'const' and y.val == 0: return x
    return _mk('bor', (a, b), 'i')


def bxor(a, b):
    r = _bin('bxor', a, b)
    if r is not None: return r
    a = as_int(a); b = as_int(b)
    if a is b: return const(0)
    for x, y in ((a, b), (b, a)):
        if y.op == 'const' and y.val == 0: return x
    return _mk('bxor', (a, b), 'i')


def bnot(a):
    a = as_int(a)
    if a.op == 'const': return const(~a.val)
    return _mk('bnot', (a,), 'i')


def shl(a, k):
    r = _bin('shl', a, k)
    if r is not None: return r
    a = as_int(a); k = as_int(k)
    if k.op == 'const' and k.val == 0: return a
    if k.op == 'const' and k.val < 0: raise EvalError('negative shift count')
    if a.op == 'const' and a.val == 0: return const(0)
    return _mk('shl', (a, k), 'i')


def shr(a, k):
    r = _bin('shr', a, k)
    if r is not None: return r
    a = as_int(a); k = as_int(k)
    if k.op == 'const' and k.val == 0: return a
    if k.op == 'const' and k.val < 0: raise EvalError('negative shift count')
    if a.op == 'const' and a.val == 0: return const(0)
    return _mk('shr', (a, k), 'i')


def ite(c, a, b):
    c = truth(c)
    a = lift(a); b = lift(b)
    if c.op == 'bconst':
        return a if c.val else b
    if a is b:
        return a
    if a.sort == 'b' and b.sort == 'b':
        return bor_(band_(c, a), band_(not_(c), b))
    if a.sort == 'a' or b.sort == 'a':
        assert a.sort == 'a' and b.sort == 'a'
        return _mk('aite', (c, a, b), 'a')
    a = as_int(a); b = as_int(b)
    return _mk('ite', (c, a, b), 'i')


def sel(arr, i):
    i = as_int(i)
    # read-over-write simplification with constant indices
    while arr.op == 'store':
        j = arr.args[1]
        if j is i:
            return arr.args[2]
        if j.op == 'const' and i.op == 'const':
            arr = arr.args[0]
            continue
        break
    return _mk('sel', (arr, i), 'i')


def store(arr, i, v):
    return _mk('store', (arr, as_int(i), as_int(v)), 'a')


def uf(name, *args):
    return _mk('uf', tuple(as_int(a) for a in args), 'i', name)


_CMP = {'eq': lambda x, y: x == y, 'ne': lambda x, y: x != y, 'lt': lambda x, y: x < y,
        'le': lambda x, y: x <= y, 'gt': lambda x, y: x > y, 'ge': lambda x, y: x >= y}


def _cmp(op, a, b):
    a = lift(a); b = lift(b)
    if a.sort == 'b' and b.sort == 'b' and op in ('eq', 'ne'):
        r = iff(a, b)
        return r if op == 'eq' else not_(r)
    a = as_int(a); b = as_int(b)
    if a.op == 'const' and b.op == 'const':
        return bconst(_CMP[op](a.val, b.val))
    if a is b:
        return bconst(op in ('eq', 'le', 'ge'))
    return _mk(op, (a, b), 'b')


def eq(a, b): return _cmp('eq', a, b)
def ne(a, b): return _cmp('ne', a, b)
def lt(a, b): return _cmp('lt', a, b)
def le(a, b): return _cmp('le', a, b)
def gt(a, b): return _cmp('gt', a, b)
def ge(a, b): return _cmp('ge', a, b)


def aeq(a, b):
    """array equality (extensional)"""
    if a is b: return TRUE
    return _mk('aeq', (a, b), 'b')


def not_(a):
    a = truth(a)
    if a.op == 'bconst': return bconst(not a.val)
    if a.op == 'not': return a.args[0]
    return _mk('not', (a,), 'b')


def band_(*xs):
    out = []
    for x in xs:
        x = truth(x)
        if x.op == 'bconst':
            if not x.val: return FALSE
            continue
        if x.op == 'and':
            out.extend(x.args)
        else:
            out.append(x)
    seen = []
    for x in out:
        if x not in seen: seen.append(x)
    if not seen: return TRUE
    if len(seen) == 1: return seen[0]
    return _mk('and', tuple(seen), 'b')


def bor_(*xs):
    out = []
    for x in xs:
        x = truth(x)
        if x.op == 'bconst':
            if x.val: return TRUE
            continue
        if x.op == 'or':
            out.extend(x.args)
        else:
            out.append(x)
    seen = []
    for x in out:
        if x not in seen: seen.append(x)
    if not seen: return FALSE
    if len(seen) == 1: return seen[0]
    return _mk('or', tuple(seen), 'b')


def implies(a, b):
    return bor_(not_(a), b)


def iff(a, b):
    a = truth(a); b = truth(b)
    if a is b: return TRUE
    if a.op == 'bconst': return b if a.val else not_(b)
    if b.op == 'bconst': return a if b.val else not_(a)
    return _mk('iff', (a, b), 'b')


_range_hint = {}


def clamp(x, lo, hi):
    """min(max(x, lo), hi) with its interval recorded (interval analysis does not refine by ite guards)"""
    x = as_int(x)
    t = ite(lt(x, lo), lo, ite(gt(x, hi), hi, x))
    _range_hint[t.id] = (lo, hi)
    return t


def range_hint(t):
    return _range_hint.get(t.id)


def forall(names, body, patterns=()):
    """patterns: terms over the bound names that together form one (multi-)trigger for instantiation; a hint to the
    solver only (any instance of a universally quantified hypothesis is a consequence of it)"""
    body = truth(body)
    if body.op == 'bconst': return body
    return _mk('forall', (body,) + tuple(patterns), 'b', tuple(names))


def exists(names, body):
    body = truth(body)
    if body.op == 'bconst': return body
    return _mk('exists', (body,), 'b', tuple(names))


def ufb(name, *args):
    """uninterpreted predicate"""
    return ne(uf(name, *args), const(0))


# spec-level helpers -------------------------------------------------------------------------
def M(x, n):
    """x mod 2**n"""
    return mod(x, pow2(n))


def sx(x, n):
    """two's complement reading of the n-bit pattern x (0 <= x < 2**n)"""
    return sub(x, mul(pow2(n), ite(ge(x, pow2(sub(n, 1))), 1, 0)))


# ------------------------------------------------------------------ traversal
def walk(t, seen=None):
    """post-order iteration over the DAG"""
    if seen is None: seen = set()
    stack = [(t, False)]
    while stack:
        n, done = stack.pop()
        if n.id in seen and not done:
            continue
        if done:
            yield n
            continue
        seen.add(n.id)
        stack.append((n, True))
        for a in n.args:
            if a.id not in seen:
                stack.append((a, False))


def free_vars(*ts):
    out = {}
    seen = set()
    for t in ts:
        for n in walk(t, seen):
            if n.op in ('var', 'bvar', 'avar'):
                out[n.val] = n
    return out


def show(t, depth=6):
    if t.op == 'const': return str(t.val)
    if t.op == 'bconst': return str(t.val)
    if t.op in ('var', 'bvar', 'avar'): return t.val
    if depth == 0: return '...'
    name = t.op if t.op != 'uf' else t.val
    return '%s(%s)' % (name, ', '.join(show(a, depth - 1) for a in t.args))


def substitute(t, mapping):
    """mapping: {var name: term}"""
    memo = {}
    for n in walk(t):
        if n.op in ('var', 'bvar', 'avar'):
            memo[n.id] = mapping.get(n.val, n)
        elif not n.args:
            memo[n.id] = n
        else:
            memo[n.id] = rebuild(n, [memo[a.id] for a in n.args])
    return memo[t.id]


_REBUILD = {}


def rebuild(n, args):
    if all(a is b for a, b in zip(args, n.args)):
        return n
    op = n.op
    if op == 'uf': return uf(n.val, *args)
    if op == 'and': return band_(*args)
    if op == 'or': return bor_(*args)
    if op == 'aite': return ite(*args)
    if op == 'forall': return forall(n.val, args[0], args[1:])
    if op == 'exists': return exists(n.val, args[0])
    return _REBUILD[op](*args)


_REBUILD.update(add=add, sub=sub, mul=mul, neg=neg, fdiv=fdiv, mod=mod, pow2=pow2, band=band, bor=bor,
                bxor=bxor, bnot=bnot, shl=shl, shr=shr, ite=ite, sel=sel, store=store, eq=eq, ne=ne,
                lt=lt, le=le, gt=gt, ge=ge, aeq=aeq, iff=iff)
_REBUILD['not'] = not_
_REBUILD['forall'] = lambda b: b
_REBUILD['exists'] = lambda b: b


# ------------------------------------------------------------------ native evaluation
def evaluate(t, env, arrays=None):
    """env: {name: int|bool}; arrays: {name: dict|list}.  Pure Python semantics.
    Implemented as substitution + constant folding so there is exactly one definition of the
    operators' meaning."""
    mapping = {}
    for k, v in env.items():
        mapping[k] = bconst(v) if isinstance(v, bool) else const(v)
    r = substitute(t, mapping)
    if r.op in ('const', 'bconst'):
        return r.val
    if arrays is not None:
        return _eval_arrays(r, arrays)
    raise EvalError('term not closed: ' + show(r))


def _eval_arrays(t, arrays):
    memo = {}
    for n in walk(t):
        if n.op == 'avar':
            memo[n.id] = dict(enumerate(arrays[n.val])) if isinstance(arrays[n.val], list) else dict(arrays[n.val])
        elif n.op == 'store':
            d = dict(memo[n.args[0].id]); d[memo[n.args[1].id]] = memo[n.args[2].id]; memo[n.id] = d
        elif n.op == 'aite':
            memo[n.id] = memo[n.args[1].id] if memo[n.args[0].id] else memo[n.args[2].id]
        elif n.op == 'sel':
            memo[n.id] = memo[n.args[0].id].get(memo[n.args[1].id], 0)
        elif n.op == 'aeq':
            memo[n.id] = memo[n.args[0].id] == memo[n.args[1].id]
        elif n.op in ('const', 'bconst'):
            memo[n.id] = n.val
        elif n.op in ('var', 'bvar'):
            raise EvalError('unbound ' + n.val)
        else:
            vals = [memo[a.id] for a in n.args]
            lifted = [bconst(v) if isinstance(v, bool) else const(v) if isinstance(v, int) else v for v in vals]
            r = rebuild(n, lifted) if all(isinstance(x, T) for x in lifted) else None
            if r is None or r.op not in ('const', 'bconst'):
                raise EvalError('cannot evaluate ' + show(n))
            memo[n.id] = r.val
    return memo[t.id]
