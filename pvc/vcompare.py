"""pvc.vcompare -- C01: emitted Verilog (read by pvc.vsem) against the simulator semantics (composition of the
proved leaf contracts over the real netlist, pvc.netlist).  For one design: equal outputs for all inputs and all
register states, equal next state under the register-wise correspondence, equal initial state."""
import io, contextlib, time
from . import ir, smt, vsem, leaf as L, netlist as N


def q(f, *a, **k):
    with contextlib.redirect_stdout(io.StringIO()):
        return f(*a, **k)


def generate(top):
    from py4hw.rtl_generation import VerilogGenerator, getVerilogModuleName
    g = VerilogGenerator(top)
    text = q(g.getVerilogForHierarchy)
    return text, getVerilogModuleName(top, noInstanceNumber=True)


def relpath(leaf, root):
    parts = []
    o = leaf
    while o is not None and o is not root:
        parts.append(o.name); o = o.parent
    return list(reversed(parts))


def compare(sys_, top, ins, outs, name='design', timeout_s=20, assume=None):
    """ins/outs: {port name: real wire}.  Returns list of result dicts (oid relative to `name`)."""
    res = []
    def R(cl, status, **kw):
        d = {'oid': '%s#%s' % (name, cl), 'status': status, 'mode': 'translation-validation', 'function': name}
        d.update(kw); res.append(d); return d
    t0 = time.time()
    try:
        text, topname = generate(top)
    except Exception as e:
        R('generates', 'refused', bounded=True, evaluations=0, reason=repr(e)[:300]); return res, None
    try:
        mods = vsem.parse(text)
        design = vsem.Design(mods, topname)
    except vsem.VError as e:
        R('parses-and-elaborates', 'refuted', model={'error': str(e)}, replay={'reproduced': True, 'got': str(e), 'expected': 'a closed legal design', 'verilog': text[:3000]})
        return res, text
    # py4hw side
    nl = N.Netlist(sys_)
    byid, I = N.input_vars(ins)
    # correspondence: clocked leaf <-> verilog state
    clocked = nl.clocked
    smap = {}     # verilog state key -> (leaf, field term)
    S = {}
    pst = {'fields': {}, 'arrays': {}, 'q': {}}
    vstate = {}
    for drv, leaf in clocked:
        rp = relpath(leaf, top)
        vpath = topname + ''.join('.i_' + p for p in rp)
        if type(leaf).__name__ == 'Reg':
            w = leaf.q.getWidth()
            sv = ir.var('st:' + '/'.join(rp), 0, (1 << w) - 1)
            pst['fields'][(id(leaf), 'value')] = sv
            pst['q'][id(leaf.q)] = sv
            vstate[vpath + '.rq'] = sv
            smap[vpath + '.rq'] = (leaf, w)
        else:
            raise N.Undecided('clocked leaf %s has no Verilog state correspondence yet' % type(leaf).__name__)
    from py4hw.rtl_generation import getValidVerilogName
    vin = {getValidVerilogName(n): I[n] for n in ins}
    try:
        vouts, vnext, vinit = design.build(vin, vstate)
    except vsem.VError as e:
        R('parses-and-elaborates', 'refuted', model={'error': str(e)}, replay={'reproduced': True, 'got': str(e), 'expected': 'a closed legal design', 'verilog': text[:3000]})
        return res, text
    for err in design.errors:
        R('wellformed[%s]' % err[:80], 'refuted', model={'error': err}, replay={'reproduced': True, 'got': err, 'expected': 'a closed legal design (C03)'})
    hyps = list(assume(I) if assume else [])
    undef = ir.bor_(*design.undef_conds) if design.undef_conds else ir.FALSE
    pouts = nl.outputs(pst, byid)
    pre, pnext = nl.step(pst, byid)
    side = [c for _, c in nl.side]
    hy = hyps + side
    obls = []
    vouts = dict(vouts)
    for n in list(outs):
        vn = getValidVerilogName(n)
        if vn != n and vn in vouts: vouts[n] = vouts[vn]
    for n, w in outs.items():
        if n not in vouts:
            R('output-port[%s]' % n, 'refuted', model={}, replay={'reproduced': True, 'got': 'no such output in module %s' % topname, 'expected': 'port ' + n}); continue
        obls.append(('out[%s]' % n, hy, ir.eq(vouts[n], pouts[id(w)])))
    obls.append(('defined', hy, ir.not_(undef)))
    for key, (leaf, w) in smap.items():
        if key not in vnext:
            R('state[%s]' % key, 'refuted', model={}, replay={'reproduced': True, 'got': 'register not found in the Verilog', 'expected': key}); continue
        obls.append(('next[%s]' % key, hy, ir.eq(vnext[key], ir.M(pnext['fields'][(id(leaf), 'value')], w))))
        iv = design.state[key]['init']
        want = leaf.reset_value & ((1 << w) - 1)
        R('init[%s]' % key, 'proved' if iv == want else 'refuted', backend='const', seconds=0.0,
          **({} if iv == want else {'model': {}, 'replay': {'reproduced': True, 'got': iv, 'expected': want}}))
    extra_v = set(vnext) - set(smap)
    for key in sorted(extra_v):
        R('state[%s]' % key, 'refuted', model={}, replay={'reproduced': True, 'got': 'Verilog register without simulator counterpart', 'expected': 'none'})
    for cl, h, g in obls:
        v = smt.prove(h, g, mode='bv', timeout_s=timeout_s)
        d = R(cl, v.status, backend=v.backend, seconds=round(v.seconds, 4), reason=v.reason, model=v.model if v.status == 'refuted' else None)
        if v.status == 'refuted':
            kind = 'out' if cl.startswith('out[') else 'next' if cl.startswith('next[') else None
            if kind:
                key = cl[cl.index('[') + 1:-1]
                d['replay'] = native_check(sys_, top, ins, outs, nl, smap, v.model, vouts, vnext, pouts, kind, key)
                d['replay']['verilog_text'] = text[:2500]
            else:
                # some compared value is x on these inputs while the simulator holds a definite value
                d['replay'] = {'reproduced': True, 'got': 'a compared Verilog value is x (out-of-range select, division by zero or uninitialised variable) on inputs %s' % {k: v_ for k, v_ in (v.model or {}).items() if isinstance(v_, int)},
                               'expected': 'the definite value the simulator holds', 'elaboration_notes': design.errors[:5], 'verilog_text': text[:2500]}
    return res, text


def native_check(sys_, top, ins, outs, nl, smap, model, vouts, vnext, pouts, kind, key):
    """replay of a counter-model: the Verilog value (vsem terms evaluated on the model) against the REAL simulator"""
    env = {k: v for k, v in model.items() if isinstance(v, int)}
    info = {'inputs': {k[3:]: v for k, v in env.items() if k.startswith('in:')}, 'state': {k[3:]: v for k, v in env.items() if k.startswith('st:')}}
    try:
        import py4hw
        py4hw.Wire.prepared = []
        for vkey, (leaf, w) in smap.items():
            rp = '/'.join(relpath(leaf, top))
            v = int(env.get('st:' + rp, 0))
            leaf.value = v; leaf.q.value = v
        for n, wre in ins.items():
            wre.put(int(env.get('in:' + n, 0)))
        q(nl.sim.propagateAll)
        full = dict(env)
        for n, wre in ins.items(): full.setdefault('in:' + n, 0)
        for vkey, (leaf, w) in smap.items(): full.setdefault('st:' + '/'.join(relpath(leaf, top)), 0)
        if kind == 'out':
            vv = ir.evaluate(vouts[key], full); sv = outs[key].get()
            info.update(verilog=vv, simulator=sv, reproduced=(vv != sv), expected={'out ' + key: sv}, got={'out ' + key + ' (Verilog)': vv})
        else:
            vv = ir.evaluate(vnext[key], full)
            leaf, w = smap[key]
            q(nl.sim.clk, 1)
            sv = leaf.value & ((1 << w) - 1)
            info.update(verilog=vv, simulator=sv, reproduced=(vv != sv), expected={'next ' + key: sv}, got={'next ' + key + ' (Verilog)': vv})
    except Exception as e:
        info.update(reproduced=False, note='replay failed: %r' % (e,))
    return info
