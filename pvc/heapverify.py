"""pvc.heapverify -- function contracts in heap mode: VC generation for one function against its contract
(normal and exceptional postconditions, frame), discharge in Int mode with quantifiers."""
import os, time, itertools
from . import ir, smt, symexec, heap
from .heap import HeapExec, HContract, FMap
from .symexec import State, Unsupported, ShapeError

REPO = os.environ.get('PVC_REPO', '/repo')
HFUNCS = {}


class HFunc:
    def __init__(self, file, qual, args, requires=(), modifies=(), ensures=(), raises_when=None, raises_ensures=(),
                 raises_only_when=None, invariants=None, uses=(), props=(), returns=None, notes='', ghost=None, axioms=(),
                 callee=None, list_attrs=(), dict_attrs=(), timeout=None, decreases=None, varargs=None, refs=(), oid_suffix='', numeric_int=False, axiom_sets=None, cases=(), opaque_mul=False, plain_attrs=(), uf_mod=False):
        self.file = file; self.qual = qual; self.args = list(args)
        self.requires = list(requires); self.modifies = list(modifies); self.ensures = list(ensures)
        self.raises_when = raises_when            # condition (pre-state) under which the function must raise ("iff")
        self.raises_only_when = raises_only_when  # weaker: it may raise only under this condition
        self.raises_ensures = list(raises_ensures)  # what holds when it raises (typically: tables unchanged)
        self.invariants = invariants or {}
        self.uses = list(uses)                    # names of callee contracts
        self.props = props; self.returns = returns; self.notes = notes
        self.ghost = ghost or {}; self.axioms = list(axioms)
        self.callee = callee                      # HContract under which callers see this function
        self.list_attrs = list_attrs; self.dict_attrs = dict_attrs; self.timeout = timeout
        self.varargs = varargs                    # *args bound to a tuple of this many arbitrary values (one proof per arity)
        self.refs = list(refs)                    # arguments that are object references (new objects differ from them)
        self.oid_suffix = oid_suffix; self.numeric_int = numeric_int
        self.plain_attrs = list(plain_attrs); self.uf_mod = uf_mod
        self.opaque_mul = opaque_mul              # products of two symbolic terms abstracted to an uninterpreted function with sign / unit facts
        self.cases = list(cases)                  # proof by cases on these pre-state conditions (all polarity combinations), tried when the direct proof fails
        self.axiom_sets = axiom_sets              # smaller axiom selections tried first (quantifier instantiation stays cheap); the full list is always tried last

    @property
    def oid(self):
        return '%s::%s%s' % (self.file, self.qual, self.oid_suffix)


def hfunc(file, qual, args, **kw):
    key = kw.pop('key', qual)
    f = HFunc(file, qual, args, **kw)
    HFUNCS[key] = f
    return f


CALLEES = {}       # contract key ('m:name' / 'f:name' / 'm:Class.name') -> HContract


def callee(key, **kw):
    c = HContract(key.split(':', 1)[1], **kw)
    CALLEES[key] = c
    return c


def gen(f):
    path = os.path.join(REPO, f.file)
    fdef, src = symexec.get_function(path, f.qual)
    contracts = {k: CALLEES.get(k, True) for k in f.uses}
    contracts['__methods__'] = [k[2:] for k in f.uses if k.startswith('m:')] + [k[4:] for k in f.uses if k.startswith('acc:')]
    ex = HeapExec(contracts=contracts, loop_invariants=f.invariants, list_attrs=f.list_attrs, dict_attrs=f.dict_attrs, ghost=f.ghost, plain_attrs=f.plain_attrs)
    st = State()
    argnames = [a.arg for a in fdef.args.args]
    if argnames != f.args:
        raise ShapeError('signature of %s is %r, contract expects %r' % (f.qual, argnames, f.args))
    hy = []
    for a in f.args:
        st.loc[a] = ir.var('arg_' + a)
    if fdef.args.vararg is not None:
        if f.varargs is None: raise ShapeError('%s takes *%s: the contract must fix an arity' % (f.qual, fdef.args.vararg.arg))
        st.loc[fdef.args.vararg.arg] = tuple(ir.var('arg_%s%d' % (fdef.args.vararg.arg, k)) for k in range(f.varargs))
        for k in range(f.varargs): st.loc['%s%d' % (fdef.args.vararg.arg, k)] = st.loc[fdef.args.vararg.arg][k]
    ex.known_refs = [st.loc[a] for a in f.refs]
    ex.numeric_int = f.numeric_int
    # defaults of keyword arguments are not modelled: every argument is an arbitrary value
    old = st.clone(); ex.old_state = old
    for r in f.requires:
        hy.append(ex.truth(ex.eval_spec(r, old)))
    axioms = [ex.truth(ex.eval_spec(a, old)) for a in f.axioms]
    cases = [ex.truth(ex.eval_spec(c, old)) for c in f.cases]
    axiom_sets = [[ex.truth(ex.eval_spec(a, old)) for a in aset] for aset in (f.axiom_sets or [])] + [axioms]
    st.pc = ir.TRUE
    outs = ex.block(fdef.body, st)
    normal = [o for o in outs if o.kind in ('fall', 'return')]
    raises = [o for o in outs if o.kind == 'raise']
    obls = []
    hyps = hy + ex.assumptions
    for o in ex.obligations:
        # loop obligations are identified by the loop's ordinal (stable under edits elsewhere in the function); the others by
        # their line offset inside the function
        tag = o.kind if o.kind.startswith('loop') else '%s@L%s' % (o.kind, (o.lineno or 0) - fdef.lineno)
        if any(t == tag for t, _, _ in obls): tag = '%s@L%s' % (o.kind, (o.lineno or 0) - fdef.lineno)
        obls.append((tag, hyps + [o.pc], o.goal))
    when = ex.truth(ex.eval_spec(f.raises_when, old)) if f.raises_when is not None else None
    only = ex.truth(ex.eval_spec(f.raises_only_when, old)) if f.raises_only_when is not None else None
    for k, o in enumerate(raises):
        tag = 'raise@L%s' % ((o.lineno or 0) - fdef.lineno)
        if when is None and only is None:
            obls.append((tag + '.unreachable', hyps, ir.not_(o.state.pc)))
        else:
            obls.append((tag + '.only_when_allowed', hyps + [o.state.pc], when if when is not None else only))
        for j, e in enumerate(f.raises_ensures):
            s2 = o.state
            saved = s2.loc; s2.loc = dict(old.loc)
            try:
                g = ex.truth(ex.eval_spec(e, s2))
            finally:
                s2.loc = saved
            obls.append((tag + '.exceptional_post[%d]' % j, hyps + [o.state.pc], g))
    for k, o in enumerate(normal):
        tag = 'return%d' % k
        if when is not None:
            obls.append((tag + '.not_when_must_raise', hyps + [o.state.pc], ir.not_(when)))
        s2 = o.state
        saved = s2.loc; s2.loc = dict(old.loc)
        if o.value is not None: s2.loc['result'] = o.value
        try:
            for j, e in enumerate(f.ensures):
                obls.append((tag + '.post[%d]' % j, hyps + [o.state.pc], ex.truth(ex.eval_spec(e, s2))))
        finally:
            s2.loc = saved
        # frame: every map written and not listed in modifies is unchanged
        for key, m in o.state.heap.items():
            if key[0] != 'M': continue
            name = key[1]
            if name in f.modifies or '#local' in name or '#ret:' in name: continue
            m0 = old.heap.get(key) or FMap(name, m.arity)
            if m is m0 or (m.base == m0.base and m.updates == m0.updates): continue
            vs = ['fr%d_%d' % (k, i) for i in range(m.arity)]
            args = [ir.var(v) for v in vs]
            obls.append((tag + '.frame[%s]' % name, hyps + [o.state.pc], ir.forall(vs, ir.eq(m.read(*args), m0.read(*args)))))
    if not normal and not raises:
        obls.append(('terminates', hyps, ir.FALSE))
    reach = {'base': hyps, 'normal': [hyps + [o.state.pc] for o in normal], 'raise': [hyps + [o.state.pc] for o in raises]}
    return obls, {'dropped': ex.dropped, 'lines': len(src.splitlines()), 'reach': reach, 'expects_raise': f.raises_when is not None,
                  'axioms': axioms, 'axiom_sets': axiom_sets, 'cases': cases}


def witness_candidates(goal, bound):
    """ground terms worth trying as existential witnesses: list lengths read in the goal, loop indices, 0"""
    out = [ir.const(0)]
    seen = set()
    for n in ir.walk(goal):
        if n.op == 'uf' and str(n.val).startswith('len:') and not (set(ir.free_vars(n)) & set(bound)):
            if n.id not in seen: seen.add(n.id); out.append(n); out.append(ir.sub(n, 1))
        if n.op == 'var' and '_it' in n.val and n.val not in bound and n.id not in seen:
            seen.add(n.id); out.append(n)
    return out[:12]


def instantiate_exists(t, cands):
    """strengthen a goal: every positively occurring `exists k. body` (directly under or / and) becomes the disjunction of
    body[k := c] over the candidate witnesses (which implies the existential)"""
    if t.op == 'exists' and len(t.val) == 1:
        k = t.val[0]
        return ir.bor_(*[ir.substitute(t.args[0], {k: c}) for c in cands])
    if t.op in ('or', 'and'):
        args = [instantiate_exists(a, cands) for a in t.args]
        return ir.bor_(*args) if t.op == 'or' else ir.band_(*args)
    return t


def case_split(hy, goal, timeout_s):
    """proof by cases for a universally quantified goal: (forall x. x != c -> phi(x)) and phi(c), for a bound variable x and a
    loop-index term c occurring free in the goal.  Both parts are discharged by the solver; the split itself is a tautology."""
    names = list(goal.val); body = goal.args[0]
    fv = ir.free_vars(goal)
    cands = [t for n, t in fv.items() if t.op == 'var' and '_it' in n and n not in names]
    t0 = time.time()
    budget = 4 * timeout_s          # the tactics together get a bounded share of time per obligation
    over = lambda: time.time() - t0 > budget
    for b in names:
        bv = ir.var(b)
        for c in cands:
            if over(): return None
            part1 = ir.forall(names, ir.implies(ir.ne(bv, c), body))
            part2 = ir.forall([n for n in names if n != b], ir.substitute(body, {b: c})) if len(names) > 1 else ir.substitute(body, {b: c})
            v1 = smt.prove(hy, part1, mode='int', timeout_s=timeout_s, use_cvc5=False)
            if v1.status != 'proved': continue
            v2 = smt.prove(hy, part2, mode='int', timeout_s=timeout_s, use_cvc5=False)
            if v2.status != 'proved':
                inner = part2.args[0] if part2.op == 'forall' else part2
                bound = list(part2.val) if part2.op == 'forall' else []
                strong = instantiate_exists(inner, witness_candidates(inner, set(names)))
                if strong is not inner:
                    g2 = ir.forall(bound, strong) if bound else strong
                    v2 = smt.prove(hy, g2, mode='int', timeout_s=timeout_s, use_cvc5=False)
            if v2.status == 'proved':
                return smt.Verdict('proved', 'z3', time.time() - t0, mode='int', reason='by cases on %s = %s' % (b, c.val))
    # range split: (forall x. x < c -> phi) and (forall x. x >= c -> phi) for list lengths c read in the goal
    for b in names:
        bv = ir.var(b)
        pool = witness_candidates(body, set(names))
        for h_ in hy[-6:]:
            for c_ in witness_candidates(h_, set(names)):
                if c_ not in pool and c_.op == 'uf': pool.append(c_)
        for c in pool[:16]:
            if c.op == 'const': continue
            if over(): return None
            lo = smt.prove(hy, ir.forall(names, ir.implies(ir.lt(bv, c), body)), mode='int', timeout_s=timeout_s, use_cvc5=False)
            if lo.status != 'proved': continue
            hi = smt.prove(hy, ir.forall(names, ir.implies(ir.ge(bv, c), body)), mode='int', timeout_s=timeout_s, use_cvc5=False)
            if hi.status == 'proved':
                return smt.Verdict('proved', 'z3', time.time() - t0, mode='int', reason='by cases on %s < / >= %s' % (b, ir.show(c, 3)))
    return None


def verify(f, timeout_s=20):
    out = []
    t0 = time.time()
    try:
        obls, meta = gen(f)
    except (Unsupported, ShapeError, ir.EvalError, KeyError) as e:
        return [{'oid': f.oid + '#undecided', 'status': 'unknown', 'reason': '%s: %s' % (type(e).__name__, e), 'function': f.oid,
                 'mode': 'heap', 'seconds': time.time() - t0}]
    # vacuity guard: the hypotheses every obligation shares (requires, axioms, callee / loop facts) must not be refutable,
    # and some normal exit -- and, where the contract says the function raises, some raising exit -- must be reachable under
    # them.  `False` proved from the hypotheses makes every obligation below meaningless, so it is reported as undecided.
    AX = meta['axioms']
    def refutable(hy):
        return smt.prove(AX + hy, ir.FALSE, mode='int', timeout_s=5, use_cvc5=False).status == 'proved'
    rc = meta['reach']
    vac = []
    if refutable(rc['base']): vac.append('requires/axioms/assumed facts are contradictory')
    elif rc['normal'] and all(refutable(h) for h in rc['normal']): vac.append('no normal exit is reachable under the contract')
    elif meta['expects_raise'] and rc['raise'] and all(refutable(h) for h in rc['raise']): vac.append('the contract says when the function raises, yet no raising exit is reachable')
    out.append({'oid': f.oid + '#nonvacuous', 'status': 'unknown' if vac else 'proved', 'mode': 'heap/quantified', 'backend': 'z3',
                'seconds': round(time.time() - t0, 4), 'function': f.oid,
                'reason': '; '.join(vac) if vac else 'False is not derivable from the hypotheses (5 s); %d normal / %d raising exits' % (len(rc['normal']), len(rc['raise']))})
    for (cl, hy0, goal) in obls:
        T = f.timeout or timeout_s
        for ai, aset in enumerate(meta['axiom_sets']):
            hy = aset + hy0
            if ai < len(meta['axiom_sets']) - 1:
                # a smaller axiom selection: one short attempt (it either suffices at once or the full list is needed)
                v = smt.prove(hy, goal, mode='int', timeout_s=min(T, 4), use_cvc5=False, opaque_mul=f.opaque_mul, uf_mod=f.uf_mod)
                if v.status == 'proved': break
                continue
            # proofs that exist are found within a second or two; a run that wanders off is cut short and repeated under other
            # seeds before the full budget is spent once
            v = smt.prove(hy, goal, mode='int', timeout_s=min(T, 8), use_cvc5=False, opaque_mul=f.opaque_mul, retries=3, uf_mod=f.uf_mod)
            if v.status != 'proved' and T > 8:
                v = smt.prove(hy, goal, mode='int', timeout_s=T, use_cvc5=False, opaque_mul=f.opaque_mul, retries=1, uf_mod=f.uf_mod)
            if v.status == 'proved': break
        if v.status != 'proved' and goal.op == 'forall':
            v2 = case_split(hy, goal, f.timeout or timeout_s)
            if v2 is not None: v = v2
        if v.status != 'proved' and meta['cases']:
            # proof by cases: the goal under every polarity combination of the case conditions (exhaustive by construction)
            tc = time.time(); ok = True
            for combo in itertools.product((True, False), repeat=len(meta['cases'])):
                extra = [c if pos else ir.not_(c) for c, pos in zip(meta['cases'], combo)]
                vc = smt.prove(hy + extra, goal, mode='int', timeout_s=f.timeout or timeout_s, use_cvc5=False, opaque_mul=f.opaque_mul, uf_mod=f.uf_mod)
                if vc.status != 'proved': ok = False; break
            if ok:
                v = smt.Verdict('proved', 'z3', time.time() - tc, mode='int', reason='by cases on %d pre-state conditions' % len(meta['cases']))
        out.append({'oid': '%s#%s' % (f.oid, cl), 'status': 'proved' if v.status == 'proved' else 'unknown',
                    'mode': 'heap/quantified', 'backend': v.backend, 'seconds': round(v.seconds, 4), 'reason': v.reason if v.status != 'refuted' else 'sat (heap-mode models are not replayable; see the bounded stand-in)',
                    'model': {k: v_ for k, v_ in (v.model or {}).items() if not k.startswith(('fr', 'j', 'k'))} if v.status == 'refuted' else None,
                    'function': f.oid})
    return out
