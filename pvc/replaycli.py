"""./check <Cxx> --replay <file>: re-executes the native part of a recorded violation on the current /repo tree
(the real object is rebuilt with the recorded configuration and model, the real method / simulator is run, and the
contract or specification is evaluated natively).  Exit 1 if the failure reproduces, 0 if the real code now satisfies it."""
import json, re
from . import work, leaf as L


def rerun(d):
    oid = d.get('obligation', ''); model = d.get('model') or {}; cfg = d.get('cfg') or {}
    work._load_blocks()
    rep = None
    try:
        m = re.match(r'^(py4hw/\S+?)::(\w+)\.(\w+)#', oid)
        if m and (m.group(2), m.group(3)) in L.LEAVES:
            rep = L.replay_leaf(L.LEAVES[(m.group(2), m.group(3))], cfg, model)
        elif m and ('%s.%s' % (m.group(2), m.group(3))) in L.FUNCS:
            rep = L.replay_func(L.FUNCS['%s.%s' % (m.group(2), m.group(3))], model)
        elif oid.startswith('block::'):
            from . import netlist as N
            name = oid[len('block::'):].split('@')[0]
            b = N.BLOCKS[name]
            c2 = {k: v for k, v in cfg.items() if k != 'block'}
            rep = work.replay_seq(b, c2, model, init='#init' in oid) if b.seq is not None else work.replay_comb(b, c2, model)
    except Exception as e:
        print('replay could not be re-executed natively: %r' % (e,))
    if rep is None:
        print('no native re-execution for this kind of obligation; recorded outcome:')
        print(json.dumps(d.get('replay'), indent=1, default=str)[:4000])
        return 1 if (d.get('replay') or {}).get('reproduced') else 0
    print(json.dumps(rep, indent=1, default=str)[:4000])
    print('REPRODUCED' if rep.get('reproduced') else 'NOT REPRODUCED on the current tree')
    return 1 if rep.get('reproduced') else 0
