"""pvc.vsem -- the Verilog subset py4hw emits, read under IEEE 1364-2005 (DESIGN 2.5 / Appendix A):
tokenizer, recursive-descent parser, elaborator (declared-once, resolved instances, port/width match, single
driver: the C03 checks) and a symbolic semantics into pvc.ir integers (a w-bit value is the integer of its bit
pattern, 0 <= v < 2**w; expression sizing and signedness by the context rules of 5.4-5.5).
A design becomes (state variables, next-state terms, output terms) -- the same shape as pvc.netlist's."""
import re
from . import ir


class VError(Exception):
    """parse / elaboration error: the text is not a closed legal design of the subset"""


KEYWORDS = {'module', 'endmodule', 'input', 'output', 'inout', 'wire', 'reg', 'integer', 'assign', 'always', 'initial', 'begin', 'end',
            'if', 'else', 'case', 'endcase', 'default', 'posedge', 'negedge', 'parameter', 'localparam', 'signed', 'or'}
RESERVED = KEYWORDS | {'always', 'and', 'assign', 'automatic', 'begin', 'buf', 'bufif0', 'bufif1', 'case', 'casex', 'casez', 'cell', 'cmos', 'config',
            'deassign', 'default', 'defparam', 'design', 'disable', 'edge', 'else', 'end', 'endcase', 'endconfig', 'endfunction', 'endgenerate',
            'endmodule', 'endprimitive', 'endspecify', 'endtable', 'endtask', 'event', 'for', 'force', 'forever', 'fork', 'function', 'generate',
            'genvar', 'highz0', 'highz1', 'if', 'ifnone', 'incdir', 'include', 'initial', 'inout', 'input', 'instance', 'integer', 'join', 'large',
            'liblist', 'library', 'localparam', 'macromodule', 'medium', 'module', 'nand', 'negedge', 'nmos', 'nor', 'noshowcancelled', 'not',
            'notif0', 'notif1', 'or', 'output', 'parameter', 'pmos', 'posedge', 'primitive', 'pull0', 'pull1', 'pulldown', 'pullup',
            'pulsestyle_onevent', 'pulsestyle_ondetect', 'rcmos', 'real', 'realtime', 'reg', 'release', 'repeat', 'rnmos', 'rpmos', 'rtran',
            'rtranif0', 'rtranif1', 'scalared', 'showcancelled', 'signed', 'small', 'specify', 'specparam', 'strong0', 'strong1', 'supply0',
            'supply1', 'table', 'task', 'time', 'tran', 'tranif0', 'tranif1', 'tri', 'tri0', 'tri1', 'triand', 'trior', 'trireg', 'unsigned',
            'use', 'uwire', 'vectored', 'wait', 'wand', 'weak0', 'weak1', 'while', 'wire', 'wor', 'xnor', 'xor'}

_TOK = re.compile(r"""
   (?P<ws>\s+|//[^\n]*|/\*.*?\*/|\(\*.*?\*\))
 | (?P<num>\d+\s*'\s*[sS]?[bBhHdDoO]\s*[0-9a-fA-F_xXzZ?]+|'\s*[sS]?[bBhHdDoO]\s*[0-9a-fA-F_xXzZ?]+|\d[\d_]*)
 | (?P<id>[A-Za-z_][A-Za-z0-9_$]*|\$[A-Za-z_][A-Za-z0-9_$]*)
 | (?P<op><<<|>>>|===|!==|<<|>>|<=|>=|==|!=|&&|\|\||~&|~\||~\^|\^~|[-+*/%&|^~!<>=?:;,.()\[\]{}@\#])
""", re.X | re.S)


def tokenize(text):
    out = []; pos = 0
    while pos < len(text):
        m = _TOK.match(text, pos)
        if not m:
            raise VError('cannot tokenize at %r' % text[pos:pos + 30])
        pos = m.end()
        if m.lastgroup == 'ws': continue
        out.append((m.lastgroup, m.group(m.lastgroup)))
    return out


# ----------------------------------------------------------------------------------------------- AST
class Module:
    def __init__(self, name):
        self.name = name; self.ports = []      # (dir, name, width, is_reg)
        self.params = {}                       # name -> default expr or None
        self.decls = {}                        # name -> dict(kind, width, init, depth, signed)
        self.decl_order = []
        self.assigns = []                      # (lhs, rhs)
        self.always = []                       # (kind: 'posedge'|'negedge'|'comb', clock name, stmt)
        self.initials = []
        self.instances = []                    # (module name, inst name, params {n: expr}, conns {port: expr or None})
        self.errors = []


class Parser:
    def __init__(self, text):
        self.toks = tokenize(text); self.i = 0

    def peek(self, k=0):
        return self.toks[self.i + k] if self.i + k < len(self.toks) else ('eof', '')

    def next(self):
        t = self.peek(); self.i += 1; return t

    def accept(self, val):
        if self.peek()[1] == val:
            self.i += 1; return True
        return False

    def expect(self, val):
        t = self.next()
        if t[1] != val:
            raise VError('expected %r, found %r (token %d)' % (val, t[1], self.i))
        return t

    def ident(self):
        t = self.next()
        if t[0] != 'id': raise VError('identifier expected, found %r' % (t[1],))
        return t[1]

    def parse(self):
        mods = []
        while self.peek()[0] != 'eof':
            mods.append(self.module())
        return mods

    def range_(self):
        if self.accept('['):
            hi = self.expr(); self.expect(':'); lo = self.expr(); self.expect(']')
            return (hi, lo)
        return None

    def module(self):
        self.expect('module')
        m = Module(self.ident())
        if self.accept('#'):
            self.expect('(')
            while not self.accept(')'):
                self.accept('parameter'); n = self.ident()
                d = None
                if self.accept('='): d = self.expr()
                m.params[n] = d; self.accept(',')
        if self.accept('('):
            while not self.accept(')'):
                d = self.next()[1]
                if d not in ('input', 'output', 'inout'): raise VError('port direction expected, found %r in module %s' % (d, m.name))
                isreg = False; signed = False
                while self.peek()[1] in ('wire', 'reg', 'signed'):
                    t = self.next()[1]
                    isreg = isreg or t == 'reg'; signed = signed or t == 'signed'
                rng = self.range_()
                n = self.ident()
                m.ports.append((d, n, rng, isreg))
                self._declare(m, n, dict(kind='reg' if isreg else 'wire', range=rng, init=None, depth=None, signed=signed, port=d))
                self.accept(',')
        self.expect(';')
        while not self.accept('endmodule'):
            self.item(m)
        return m

    def _declare(self, m, name, info):
        if name in m.decls:
            m.errors.append('identifier %s declared more than once in module %s' % (name, m.name))
        if name in RESERVED:
            m.errors.append('identifier %s in module %s is a reserved word' % (name, m.name))
        m.decls[name] = info; m.decl_order.append(name)

    def item(self, m):
        t = self.peek()[1]
        if t in ('wire', 'reg', 'integer'):
            self.next()
            signed = self.accept('signed')
            rng = self.range_() if t != 'integer' else None
            while True:
                n = self.ident()
                depth = self.range_()
                init = None
                if self.accept('='): init = self.expr()
                self._declare(m, n, dict(kind=t, range=rng, init=init, depth=depth, signed=signed or t == 'integer', port=None))
                if not self.accept(','): break
            self.expect(';')
        elif t in ('parameter', 'localparam'):
            self.next(); n = self.ident(); d = None
            if self.accept('='): d = self.expr()
            m.params[n] = d; self.expect(';')
        elif t == 'assign':
            self.next(); lhs = self.lvalue(); self.expect('='); rhs = self.expr(); self.expect(';')
            m.assigns.append((lhs, rhs))
        elif t == 'always':
            self.next(); self.expect('@')
            if self.accept('*'):
                kind, clk = 'comb', None
            else:
                self.expect('(')
                if self.accept('*'):
                    kind, clk = 'comb', None
                else:
                    e = self.next()[1]
                    if e not in ('posedge', 'negedge'): raise VError('sensitivity list %r not supported' % e)
                    kind = e; clk = self.ident()
                self.expect(')')
            m.always.append((kind, clk, self.stmt()))
        elif t == 'initial':
            self.next(); m.initials.append(self.stmt())
        elif self.peek()[0] == 'id':
            mod = self.ident(); params = {}
            if self.accept('#'):
                self.expect('(')
                while not self.accept(')'):
                    self.expect('.'); pn = self.ident(); self.expect('('); params[pn] = self.expr(); self.expect(')'); self.accept(',')
            inst = self.ident(); self.expect('(')
            conns = {}
            while not self.accept(')'):
                self.expect('.'); pn = self.ident(); self.expect('(')
                e = None
                if self.peek()[1] != ')': e = self.expr()
                self.expect(')')
                if pn in conns: m.errors.append('port %s connected twice on instance %s' % (pn, inst))
                conns[pn] = e; self.accept(',')
            self.expect(';')
            if inst in RESERVED: m.errors.append('instance name %s is a reserved word' % inst)
            m.instances.append((mod, inst, params, conns))
        else:
            raise VError('unexpected token %r in module %s' % (t, m.name))

    def lvalue(self):
        n = self.ident()
        if self.accept('['):
            hi = self.expr()
            if self.accept(':'):
                lo = self.expr(); self.expect(']'); return ('part', n, hi, lo)
            self.expect(']'); return ('bit', n, hi)
        return ('id', n)

    def stmt(self):
        t = self.peek()[1]
        if t == 'begin':
            self.next(); body = []
            while not self.accept('end'): body.append(self.stmt())
            return ('block', body)
        if t == 'if':
            self.next(); self.expect('('); c = self.expr(); self.expect(')')
            a = self.stmt(); b = None
            if self.accept('else'): b = self.stmt()
            return ('if', c, a, b)
        if t == 'case':
            self.next(); self.expect('('); sel = self.expr(); self.expect(')')
            items = []; default = None
            while not self.accept('endcase'):
                if self.accept('default'):
                    self.accept(':'); default = self.stmt()
                else:
                    labels = [self.expr()]
                    while self.accept(','): labels.append(self.expr())
                    self.expect(':'); items.append((labels, self.stmt()))
            return ('case', sel, items, default)
        if t == ';':
            self.next(); return ('block', [])
        lhs = self.lvalue()
        op = self.next()[1]
        if op not in ('=', '<='): raise VError('assignment operator expected, found %r' % op)
        rhs = self.expr(); self.expect(';')
        return ('nb' if op == '<=' else 'b', lhs, rhs)

    # expressions: precedence climbing
    BIN = [['||'], ['&&'], ['|'], ['^'], ['&'], ['==', '!='], ['<', '<=', '>', '>='], ['<<', '>>', '<<<', '>>>'], ['+', '-'], ['*', '/', '%']]

    def expr(self):
        c = self.binary(0)
        if self.accept('?'):
            a = self.expr(); self.expect(':'); b = self.expr()
            return ('?:', c, a, b)
        return c

    def binary(self, lvl):
        if lvl == len(self.BIN): return self.unary()
        l = self.binary(lvl + 1)
        while self.peek()[1] in self.BIN[lvl] and self.peek()[0] == 'op':
            op = self.next()[1]
            r = self.binary(lvl + 1)
            l = ('bin', op, l, r)
        return l

    def unary(self):
        t = self.peek()
        if t[0] == 'op' and t[1] in ('~', '!', '-', '+', '&', '|', '^', '~&', '~|', '~^'):
            self.next(); return ('un', t[1], self.unary())
        return self.primary()

    def primary(self):
        t = self.next()
        if t[0] == 'num': return parse_number(t[1])
        if t[1] == '(':
            e = self.expr(); self.expect(')'); return e
        if t[1] == '{':
            first = self.expr()
            if self.accept('{'):
                inner = [self.expr()]
                while self.accept(','): inner.append(self.expr())
                self.expect('}'); self.expect('}')
                return ('repl', first, ('cat', inner))
            items = [first]
            while self.accept(','): items.append(self.expr())
            self.expect('}')
            return ('cat', items)
        if t[0] == 'id':
            if t[1] == '$signed':
                self.expect('('); e = self.expr(); self.expect(')'); return ('signed', e)
            if t[1] == '$unsigned':
                self.expect('('); e = self.expr(); self.expect(')'); return ('unsigned', e)
            if t[1].startswith('$'): raise VError('system function %s not supported' % t[1])
            e = ('id', t[1])
            if self.accept('['):
                hi = self.expr()
                if self.accept(':'):
                    lo = self.expr(); self.expect(']'); return ('part', t[1], hi, lo)
                self.expect(']'); return ('bit', t[1], hi)
            return e
        raise VError('unexpected token %r in expression' % (t[1],))


def parse_number(tok):
    tok = tok.replace('_', '').replace(' ', '')
    if "'" not in tok:
        return ('num', int(tok), 32, True, False)       # unsized decimal: 32 bits, signed
    size, rest = tok.split("'")
    signed = rest[0] in 'sS'
    if signed: rest = rest[1:]
    base = {'b': 2, 'h': 16, 'd': 10, 'o': 8}[rest[0].lower()]
    digits = rest[1:]
    isx = any(c in 'xXzZ?' for c in digits)
    val = 0 if isx else int(digits, base)
    n = int(size) if size else 32
    return ('num', val & ((1 << n) - 1), n, signed, isx)


def parse(text):
    return Parser(text).parse()


# ----------------------------------------------------------------------------------------------- elaboration / semantics
class Undef:
    """marker carried by values that are x (uninitialised reg, out-of-range select, division by zero)"""


class Design:
    """flattened transition system of one top module"""

    def __init__(self, modules, top, clock='clk', black_boxes=()):
        self.mods = {}
        self.errors = []
        for m in modules:
            if m.name in self.mods:
                self.errors.append('module %s defined more than once' % m.name)
            self.mods[m.name] = m
            self.errors.extend(m.errors)
        if top not in self.mods: raise VError('top module %s not found' % top)
        self.top = top; self.clock = clock
        self.black_boxes = set(black_boxes)
        self.state = {}        # hierarchical name -> dict(width, init (int|None), kind)
        self.memories = {}
        self.undef_conds = []  # conditions under which some compared value is x
        self._check_structure(self.mods[top], top, set())

    # --- C03: closed, legal design ---------------------------------------------------------------
    def _const(self, e, params=None):
        v = self._const_eval(e, params or {})
        if v is None: raise VError('constant expression expected')
        return v

    def _const_eval(self, e, params):
        k = e[0]
        if k == 'num': return e[1]
        if k == 'id':
            if e[1] in params: return params[e[1]]
            return None
        if k == 'bin':
            a = self._const_eval(e[2], params); b = self._const_eval(e[3], params)
            if a is None or b is None: return None
            try:
                return {'+': a + b, '-': a - b, '*': a * b, '/': a // b if b else None, '%': a % b if b else None, '<<': a << b, '>>': a >> b}.get(e[1])
            except Exception:
                return None
        if k == 'un' and e[1] == '-':
            a = self._const_eval(e[2], params); return None if a is None else -a
        return None

    def width_of(self, m, name, params=None):
        d = m.decls.get(name)
        if d is None: return None
        if d['kind'] == 'integer': return 32
        if d['range'] is None: return 1
        hi = self._const(d['range'][0], params); lo = self._const(d['range'][1], params)
        if lo != 0 or hi < 0: self.errors.append('range [%s:%s] of %s in %s' % (hi, lo, name, m.name))
        return hi - lo + 1

    def _check_structure(self, m, path, stack):
        if m.name in stack: raise VError('recursive instantiation of %s' % m.name)
        for (mod, inst, params, conns) in m.instances:
            if mod not in self.mods:
                if mod in self.black_boxes: continue
                self.errors.append('instance %s.%s refers to undefined module %s' % (path, inst, mod)); continue
            sub = self.mods[mod]
            pnames = {p[1]: p for p in sub.ports}
            for pn, e in conns.items():
                if pn not in pnames:
                    self.errors.append('instance %s.%s connects port %s which module %s does not have' % (path, inst, pn, mod))
            for p in sub.ports:
                if p[1] not in conns and p[0] == 'input':
                    self.errors.append('input port %s of instance %s.%s (%s) is not connected' % (p[1], path, inst, mod))
            for pn in params:
                if pn not in sub.params: self.errors.append('instance %s.%s overrides unknown parameter %s' % (path, inst, pn))
            for pn, dflt in sub.params.items():
                if dflt is None and pn not in params:
                    self.errors.append('parameter %s of module %s has no default and is not overridden by %s.%s' % (pn, mod, path, inst))
            self._check_structure(sub, path + '.' + inst, stack | {m.name})
        # every identifier used is declared
        used = set()
        def walk(e):
            if e is None: return
            if isinstance(e, tuple):
                if e[0] in ('id',): used.add(e[1])
                elif e[0] in ('bit', 'part'):
                    used.add(e[1]); [walk(x) for x in e[2:]]
                else:
                    for x in e[1:]:
                        if isinstance(x, (tuple, list)): walk(x)
            elif isinstance(e, list):
                for x in e: walk(x)
        for lhs, rhs in m.assigns: walk(lhs); walk(rhs)
        for kind, clk, st in m.always:
            walk(st)
            if clk: used.add(clk)
        for st in m.initials: walk(st)
        for (mod, inst, params, conns) in m.instances:
            for e in list(conns.values()) + list(params.values()): walk(e)
        for n in sorted(used):
            if n not in m.decls and n not in m.params:
                self.errors.append('identifier %s is used but not declared in module %s' % (n, m.name))
        # drivers: every net exactly one driver of the right kind
        drivers = {}
        def drive(n, kind, bits=None):
            drivers.setdefault(n, []).append((kind, bits))
        for lhs, rhs in m.assigns: drive(lhs[1], 'assign', lhs[2:] if lhs[0] != 'id' else None)
        def walk_st(st, kind):
            if st[0] == 'block': [walk_st(x, kind) for x in st[1]]
            elif st[0] == 'if':
                walk_st(st[2], kind)
                if st[3]: walk_st(st[3], kind)
            elif st[0] == 'case':
                for labels, x in st[2]: walk_st(x, kind)
                if st[3]: walk_st(st[3], kind)
            elif st[0] in ('b', 'nb'):
                procs.add(st[1][1])
        for k, (kind, clk, st) in enumerate(m.always):
            procs = set(); walk_st(st, kind)
            for n in procs: drive(n, 'always%d' % k)
        for (mod, inst, params, conns) in m.instances:
            sub = self.mods.get(mod)
            if sub is None: continue
            for p in sub.ports:
                if p[0] == 'output' and conns.get(p[1]) is not None:
                    e = conns[p[1]]
                    if e[0] in ('id', 'bit', 'part'): drive(e[1], 'inst:' + inst, e[2:] if e[0] != 'id' else None)
                    else: self.errors.append('output port %s of %s.%s is connected to an expression' % (p[1], path, inst))
        for n, ds in drivers.items():
            d = m.decls.get(n)
            if d is None: continue
            kinds = set(k for k, b in ds)
            whole = [k for k, b in ds if b is None]
            if len(whole) > 1 or (whole and len(ds) > 1):
                self.errors.append('net %s in module %s has %d drivers (%s)' % (n, m.name, len(ds), ', '.join(sorted(kinds))))
            if d['port'] == 'input':
                self.errors.append('input port %s of module %s is driven inside the module' % (n, m.name))
            for k in kinds:
                if k.startswith('always') and d['kind'] == 'wire':
                    self.errors.append('%s in module %s is assigned in an always block but declared as a wire' % (n, m.name))
                if (k == 'assign' or k.startswith('inst:')) and d['kind'] in ('reg', 'integer'):
                    self.errors.append('%s in module %s is a %s but driven by a continuous assignment / instance' % (n, m.name, d['kind']))
        for n, d in m.decls.items():
            if d['port'] == 'output' and n not in drivers:
                self.errors.append('output port %s of module %s has no driver' % (n, m.name))

    # --- semantics ---------------------------------------------------------------------------------
    def build(self, inputs, state_terms=None):
        """inputs: {top input name: ir term}; state_terms: {hier name: ir term} (symbolic current state).
        returns (outputs {name: term}, next_state {hier: term}, init {hier: int or None})"""
        self.state_terms = state_terms or {}
        self.next_state = {}
        self.init = {}
        inst = Instance(self, self.mods[self.top], self.top, {}, None)
        top = self.mods[self.top]
        for p in top.ports:
            if p[0] == 'input':
                if p[1] in inputs: inst.env_in[p[1]] = inputs[p[1]]
                elif p[1] == self.clock: inst.env_in[p[1]] = ir.const(0)
                else: raise VError('no value for top-level input %s' % p[1])
        outs = {}
        for p in top.ports:
            if p[0] == 'output':
                outs[p[1]] = inst.value(p[1])
        inst.run_processes()
        return outs, self.next_state, self.init


class Instance:
    def __init__(self, design, mod, path, params, parent):
        self.d = design; self.m = mod; self.path = path; self.params = dict(params)
        for pn, dflt in mod.params.items():
            if pn not in self.params and dflt is not None:
                self.params[pn] = design._const(dflt, self.params)
        self.env_in = {}         # input port name -> term
        self.memo = {}
        self.busy = set()
        self.children = {}
        self.drivers = {}        # net -> list of ('assign', lhs, rhs) | ('inst', child, port)
        for lhs, rhs in mod.assigns:
            self.drivers.setdefault(lhs[1], []).append(('assign', lhs, rhs))
        for (mname, iname, params, conns) in mod.instances:
            sub = design.mods.get(mname)
            if sub is None: continue
            pvals = {pn: design._const(e, self.params) for pn, e in params.items()}
            ch = Instance(design, sub, path + '.' + iname, pvals, self)
            ch.conns = conns; ch.parent_inst = self
            self.children[iname] = ch
            for p in sub.ports:
                if p[0] == 'output' and conns.get(p[1]) is not None:
                    e = conns[p[1]]
                    self.drivers.setdefault(e[1], []).append(('inst', ch, p[1], e))
        # registers: variables assigned in edge-triggered blocks
        self.regs = set()
        def walk_st(st):
            if st[0] == 'block': [walk_st(x) for x in st[1]]
            elif st[0] == 'if':
                walk_st(st[2]); st[3] and walk_st(st[3])
            elif st[0] == 'case':
                [walk_st(x) for _, x in st[2]]; st[3] and walk_st(st[3])
            elif st[0] in ('b', 'nb'): self.regs.add(st[1][1])
        for kind, clk, st in mod.always:
            if kind != 'comb': walk_st(st)
        # a procedural assignment needs a variable (reg / integer): a net assigned in an always block has a driver of the wrong kind
        assigned_proc = set(self.regs)
        def walk_any(st):
            if st[0] == 'block': [walk_any(x) for x in st[1]]
            elif st[0] == 'if':
                walk_any(st[2]); st[3] and walk_any(st[3])
            elif st[0] == 'case':
                [walk_any(x) for _, x in st[2]]; st[3] and walk_any(st[3])
            elif st[0] in ('b', 'nb'): assigned_proc.add(st[1][1])
        for kind, clk, st in mod.always: walk_any(st)
        for n in sorted(assigned_proc):
            d = mod.decls.get(n)
            if d is not None and d['kind'] == 'wire':
                msg = 'net %s is assigned in an always block of module %s (a procedural assignment needs a reg)' % (n, mod.name)
                if msg not in design.errors: design.errors.append(msg)
        for n in self.regs:
            d = mod.decls.get(n)
            if d is None: continue
            w = self.width(n)
            init = None
            if d['init'] is not None:
                init = design._const(d['init'], self.params) & ((1 << w) - 1)
            design.init[self.path + '.' + n] = init
            design.state[self.path + '.' + n] = dict(width=w, init=init, kind=d['kind'])
        self.mem_init = {}
        for st in mod.initials:
            self._initial(st)
        # memories written in an edge-triggered process: one state variable per word, named <mem>#<address>
        # (a word without an `initial` assignment is x until written: init None)
        for n in self.regs:
            d = mod.decls.get(n)
            if d is None or d.get('depth') is None: continue
            design.state.pop(self.path + '.' + n, None); design.init.pop(self.path + '.' + n, None)
            w = self.width(n)
            for a_ in self.mem_range(n):
                iv = self.mem_init.get(n, {}).get(a_)
                iv = None if iv is None else iv & ((1 << w) - 1)
                design.init[self.path + '.%s#%d' % (n, a_)] = iv
                design.state[self.path + '.%s#%d' % (n, a_)] = dict(width=w, init=iv, kind='reg', memory=n)

    def mem_range(self, n):
        dd = self.m.decls[n]['depth']
        lo_ = self.d._const(dd[0], self.params); hi_ = self.d._const(dd[1], self.params)
        return range(min(lo_, hi_), max(lo_, hi_) + 1)

    def is_mem(self, n):
        d = self.m.decls.get(n)
        return d is not None and d.get('depth') is not None

    def _initial(self, st):
        if st[0] == 'block': [self._initial(x) for x in st[1]]
        elif st[0] in ('b', 'nb') and st[1][0] == 'bit' and self.m.decls.get(st[1][1], {}).get('depth') is not None:
            idx = self.d._const_eval(st[1][2], self.params); v = self.d._const_eval(st[2], self.params)
            if idx is None or v is None: raise VError('non-constant memory initialisation')
            self.mem_init.setdefault(st[1][1], {})[idx] = v
        elif st[0] in ('b', 'nb') and st[1][0] == 'id':
            n = st[1][1]; w = self.width(n)
            v = self.d._const_eval(st[2], self.params)
            if v is not None and n in self.regs:
                self.d.init[self.path + '.' + n] = v & ((1 << w) - 1)
                self.d.state[self.path + '.' + n]['init'] = v & ((1 << w) - 1)

    def width(self, name):
        if '#' in name: name = name.split('#')[0]
        w = self.d.width_of(self.m, name, self.params)
        if w is None: raise VError('undeclared identifier %s in %s' % (name, self.m.name))
        return w

    # ---- sizes and signedness (5.4.1, 5.5)
    def size(self, e):
        k = e[0]
        if k == 'num': return e[2]
        if k == 'id':
            if e[1] in self.params and e[1] not in self.m.decls: return 32
            return self.width(e[1])
        if k == 'bit': return 1
        if k == 'part': return self.d._const(e[2], self.params) - self.d._const(e[3], self.params) + 1
        if k == 'cat': return sum(self.size(x) for x in e[1])
        if k == 'repl':
            n = self.d._const(e[1], self.params)
            if n <= 0:
                self.d.errors.append('replication count %d in module %s' % (n, self.m.name)); return 0
            return n * self.size(e[2])
        if k in ('signed', 'unsigned'): return self.size(e[1])
        if k == 'un':
            return self.size(e[2]) if e[1] in ('~', '-', '+') else 1
        if k == 'bin':
            op = e[1]
            if op in ('==', '!=', '<', '<=', '>', '>=', '&&', '||'): return 1
            if op in ('<<', '>>', '<<<', '>>>'): return self.size(e[2])
            return max(self.size(e[2]), self.size(e[3]))
        if k == '?:': return max(self.size(e[2]), self.size(e[3]))
        raise VError('size of %r' % (k,))

    def signed(self, e):
        k = e[0]
        if k == 'num': return e[3]
        if k == 'id':
            if e[1] in self.params and e[1] not in self.m.decls: return True
            d = self.m.decls[e[1]]; return bool(d['signed'])
        if k in ('bit', 'part', 'cat', 'repl', 'unsigned'): return False
        if k == 'signed': return True
        if k == 'un': return self.signed(e[2]) if e[1] in ('~', '-', '+') else False
        if k == 'bin':
            op = e[1]
            if op in ('==', '!=', '<', '<=', '>', '>=', '&&', '||'): return False
            if op in ('<<', '>>', '<<<', '>>>'): return self.signed(e[2])
            return self.signed(e[2]) and self.signed(e[3])
        if k == '?:': return self.signed(e[2]) and self.signed(e[3])
        return False

    # ---- values
    def value(self, name):
        """current value (bit pattern) of a net / variable of this instance"""
        if name in self.memo: return self.memo[name]
        if name in self.busy:
            key = self.path + '.' + name
            if key in self.d.state_terms:
                # a variable of a combinational process that is not assigned on every path: inferred latch, previous value
                self.d.latches = getattr(self.d, 'latches', set()) | {key}
                return self.d.state_terms[key]
            raise VError('combinational cycle through %s.%s' % (self.path, name))
        self.busy.add(name)
        try:
            v = self._value(name)
        finally:
            self.busy.discard(name)
        self.memo[name] = v
        return v

    def _value(self, name):
        if '#' in name:
            key = self.path + '.' + name
            if key in self.d.state_terms: return self.d.state_terms[key]
            init = self.d.init.get(key)
            if init is None:
                raise VError('memory word %s has no initial value and no symbolic state was supplied' % key)
            return ir.const(init)
        d = self.m.decls.get(name)
        if d is None:
            if name in self.params: return ir.const(self.params[name] & 0xFFFFFFFF)
            raise VError('undeclared identifier %s in module %s' % (name, self.m.name))
        w = self.width(name)
        if d['port'] == 'input':
            if name in self.env_in: return self.env_in[name]
            # connection from the parent
            e = self.conns.get(name)
            if e is None:
                self.d.undef_conds.append(ir.TRUE); return ir.const(0)
            return self.parent_inst.assign_value(e, w)
        if name in self.regs:
            key = self.path + '.' + name
            if key in self.d.state_terms: return self.d.state_terms[key]
            init = self.d.init.get(key)
            if init is None:
                raise VError('register %s has no initial value and no symbolic state was supplied' % key)
            return ir.const(init)
        ds = self.drivers.get(name, [])
        comb = [a for a in self.m.always if a[0] == 'comb']
        if not ds:
            for kind, clk, st in comb:
                r = self._comb_value(st, name, w)
                if r is not None: return r
            if d['init'] is not None:
                return ir.const(self.d._const(d['init'], self.params) & ((1 << w) - 1))
            self.d.errors.append('net %s.%s has no driver' % (self.path, name))
            return ir.const(0)
        if len(ds) == 1 and ds[0][0] == 'assign' and ds[0][1][0] == 'id':
            return self.assign_value(ds[0][2], w)
        if len(ds) == 1 and ds[0][0] == 'inst' and ds[0][3][0] == 'id':
            ch, port = ds[0][1], ds[0][2]
            return self._fit(ch.value(port), ch.width(port), w, False)
        # part-select drivers: assemble
        total = ir.const(0); covered = 0
        for dr in ds:
            lhs = dr[1] if dr[0] == 'assign' else dr[3]
            if lhs[0] == 'part':
                hi = self.d._const(lhs[2], self.params); lo = self.d._const(lhs[3], self.params)
            elif lhs[0] == 'bit':
                hi = lo = self.d._const(lhs[2], self.params)
            else:
                hi, lo = w - 1, 0
            pw = hi - lo + 1
            v = self.assign_value(dr[2], pw) if dr[0] == 'assign' else self._fit(dr[1].value(dr[2]), dr[1].width(dr[2]), pw, False)
            total = ir.add(total, ir.mul(v, 1 << lo)); covered += pw
        return total

    def _comb_value(self, st, name, w):
        env = {}; nb = {}
        assigned = set()
        self._exec(st, env, nb, ir.TRUE, assigned, blocking_only=True)
        env.update(nb)      # in a combinational process the non-blocking updates are what the net settles to
        if name in env: return env[name]
        return None

    def _fit(self, v, wfrom, wto, signed):
        if wto == wfrom: return v
        if wto < wfrom: return ir.mod(v, 1 << wto)
        if signed:
            return ir.mod(ir.sx(v, wfrom), 1 << wto)
        return v

    def assign_value(self, rhs, lw):
        """value stored by `lhs = rhs` where lhs is lw bits wide"""
        if rhs[0] == 'part' and rhs[1] in self.m.decls:
            # x bits of a part select reaching above the declared range are discarded when the target is narrow enough
            bw = self.width(rhs[1]); hi = self.d._const(rhs[2], self.params); lo = self.d._const(rhs[3], self.params)
            if hi >= bw and 0 <= lo < bw and lw <= bw - lo:
                return ir.mod(ir.shr(self.value(rhs[1]), lo), 1 << lw)
        W = max(lw, self.size(rhs)); S = self.signed(rhs)
        v = self.eval(rhs, W, S)
        return ir.mod(v, 1 << lw) if W > lw else v

    def self_eval(self, e):
        return self.eval(e, self.size(e), self.signed(e)), self.size(e), self.signed(e)

    def truth(self, e):
        v, w, s = self.self_eval(e)
        return ir.ne(v, 0)

    def eval(self, e, W, S):
        """bit pattern (0 <= v < 2**W) of e evaluated in a context of W bits and signedness S"""
        k = e[0]
        M = lambda x: ir.mod(x, 1 << W)
        if k == 'num':
            if e[4]: self.d.undef_conds.append(ir.TRUE)
            return self._fit(ir.const(e[1]), e[2], W, S and e[3]) if W >= e[2] else ir.const(e[1] & ((1 << W) - 1))
        if k == 'id':
            n = self.size(e)
            v = self.value(e[1]) if (e[1] in self.m.decls) else ir.const(self.params[e[1]] & 0xFFFFFFFF)
            return self._fit(v, n, W, S and self.signed(e))
        if k == 'bit':
            bw = self.width(e[1])
            base = self.value(e[1]) if self.m.decls[e[1]].get('depth') is None else None
            if self.m.decls[e[1]].get('depth') is not None:
                if e[1] in self.regs:
                    idx, iw, isg = self.self_eval(e[2])
                    rng_ = self.mem_range(e[1])
                    self.d.undef_conds.append(ir.bor_(ir.lt(idx, rng_[0]), ir.gt(idx, rng_[-1])))
                    r = ir.const(0)
                    for a_ in reversed(rng_):
                        r = ir.ite(ir.eq(idx, a_), self.value('%s#%d' % (e[1], a_)), r)
                    return r
                words = self.mem_init.get(e[1], {})
                dd = self.m.decls[e[1]]['depth']
                lo_ = self.d._const(dd[0], self.params); hi_ = self.d._const(dd[1], self.params)
                lo_, hi_ = min(lo_, hi_), max(lo_, hi_)
                idx, iw, isg = self.self_eval(e[2])
                self.d.undef_conds.append(ir.bor_(ir.lt(idx, lo_), ir.gt(idx, hi_)))
                r = ir.const(0)
                for a_ in range(hi_, lo_ - 1, -1):
                    if a_ not in words: self.d.undef_conds.append(ir.eq(idx, a_))
                    r = ir.ite(ir.eq(idx, a_), words.get(a_, 0) & ((1 << bw) - 1), r)
                return r
            if self.m.decls[e[1]]['range'] is None and self.m.decls[e[1]]['kind'] != 'integer':
                self.d.errors.append('bit select %s[...] on the scalar %s in module %s' % (e[1], e[1], self.m.name))
            idx, iw, isg = self.self_eval(e[2])
            if ir.is_const(idx) and not (0 <= idx.val < bw):
                self.d.errors.append('constant bit select %s[%d] outside [%d:0] in module %s' % (e[1], idx.val, bw - 1, self.m.name))
                self.d.undef_conds.append(ir.TRUE); return ir.const(0)
            self.d.undef_conds.append(ir.ge(idx, bw))
            return ir.mod(ir.shr(base, idx), 2)
        if k == 'part':
            base = self.value(e[1]); bw = self.width(e[1])
            hi = self.d._const(e[2], self.params); lo = self.d._const(e[3], self.params)
            if self.m.decls[e[1]]['range'] is None and self.m.decls[e[1]]['kind'] != 'integer':
                self.d.errors.append('part select on the scalar %s in module %s' % (e[1], self.m.name))
            if hi < lo or lo < 0:
                self.d.errors.append('part select %s[%d:%d] is reversed or negative in module %s' % (e[1], hi, lo, self.m.name)); return ir.const(0)
            if hi >= bw:
                self.d.errors.append('part select %s[%d:%d] outside [%d:0] in module %s' % (e[1], hi, lo, bw - 1, self.m.name))
                self.d.undef_conds.append(ir.TRUE)
            return ir.mod(ir.shr(base, lo), 1 << (hi - lo + 1))
        if k == 'cat':
            acc = ir.const(0)
            for x in e[1]:
                if self.size(x) <= 0: continue        # an (illegal) empty replication contributes no bits
                v, w, s = self.self_eval(x)
                acc = ir.add(ir.mul(acc, 1 << w), v)
            return acc if W >= self.size(e) else ir.mod(acc, 1 << W)
        if k == 'repl':
            n = self.d._const(e[1], self.params)
            if n <= 0:
                return ir.const(0)
            v, w, s = self.self_eval(e[2])
            acc = ir.const(0)
            for _ in range(n): acc = ir.add(ir.mul(acc, 1 << w), v)
            return acc if W >= n * w else ir.mod(acc, 1 << W)
        if k == 'signed' or k == 'unsigned':
            v, w, s = self.self_eval(e[1])
            return self._fit(v, w, W, S and k == 'signed')
        if k == 'un':
            op = e[1]
            if op == '~': return M(ir.sub(ir.neg(self.eval(e[2], W, S)), 1))
            if op == '-': return M(ir.neg(self.eval(e[2], W, S)))
            if op == '+': return self.eval(e[2], W, S)
            v, w, s = self.self_eval(e[2])
            if op == '!': return ir.ite(ir.eq(v, 0), 1, 0)
            if op == '|': return ir.ite(ir.ne(v, 0), 1, 0)
            if op == '~|': return ir.ite(ir.eq(v, 0), 1, 0)
            if op == '&': return ir.ite(ir.eq(v, (1 << w) - 1), 1, 0)
            if op == '~&': return ir.ite(ir.ne(v, (1 << w) - 1), 1, 0)
            raise VError('reduction %s not supported' % op)
        if k == 'bin':
            op = e[1]
            if op in ('&&', '||'):
                a = self.truth(e[2]); b = self.truth(e[3])
                return ir.ite(ir.band_(a, b) if op == '&&' else ir.bor_(a, b), 1, 0)
            if op in ('==', '!=', '<', '<=', '>', '>='):
                w = max(self.size(e[2]), self.size(e[3])); s = self.signed(e[2]) and self.signed(e[3])
                a = self.eval(e[2], w, s); b = self.eval(e[3], w, s)
                if s: a = ir.sx(a, w); b = ir.sx(b, w)
                f = {'==': ir.eq, '!=': ir.ne, '<': ir.lt, '<=': ir.le, '>': ir.gt, '>=': ir.ge}[op]
                return ir.ite(f(a, b), 1, 0)
            if op in ('<<', '>>', '<<<', '>>>'):
                a = self.eval(e[2], W, S); b, bw, bs = self.self_eval(e[3])
                if op in ('<<', '<<<'): return M(ir.shl(a, b))
                if op == '>>' or not S: return ir.shr(a, b)
                return M(ir.shr(ir.sx(a, W), b))
            a = self.eval(e[2], W, S); b = self.eval(e[3], W, S)
            if op == '+': return M(ir.add(a, b))
            if op == '-': return M(ir.sub(a, b))
            if op == '*': return M(ir.mul(a, b))
            if op == '&': return ir.band(a, b)
            if op == '|': return ir.bor(a, b)
            if op == '^': return ir.bxor(a, b)
            if op in ('/', '%'):
                self.d.undef_conds.append(ir.eq(b, 0))
                if S:
                    sa = ir.sx(a, W); sb = ir.sx(b, W)
                    aa = ir.ite(ir.ge(sa, 0), sa, ir.neg(sa)); ab = ir.ite(ir.ge(sb, 0), sb, ir.neg(sb))
                    safe = ir.ite(ir.eq(ab, 0), 1, ab)
                    if op == '/':
                        q = ir.fdiv(aa, safe)
                        return M(ir.ite(ir.eq(ir.ge(sa, 0), ir.ge(sb, 0)), q, ir.neg(q)))
                    r = ir.mod(aa, safe)
                    return M(ir.ite(ir.ge(sa, 0), r, ir.neg(r)))
                safe = ir.ite(ir.eq(b, 0), 1, b)
                return ir.fdiv(a, safe) if op == '/' else ir.mod(a, safe)
            raise VError('operator %s not supported' % op)
        if k == '?:':
            c = self.truth(e[1])
            return ir.ite(c, self.eval(e[2], W, S), self.eval(e[3], W, S))
        raise VError('expression kind %s' % k)

    # ---- processes
    def run_processes(self):
        for ch in self.children.values(): ch.run_processes()
        for kind, clk, st in self.m.always:
            if kind == 'comb': continue
            env = {}; nb = {}; assigned = set()
            self._exec(st, env, nb, ir.TRUE, assigned)
            upd = dict(env); upd.update(nb)
            for n, v in upd.items():
                key = self.path + '.' + n
                self.d.next_state[key] = v
                self.d.state.setdefault(key, dict(width=self.width(n), init=None, kind='reg'))['edge'] = (kind, clk)
        for n in self.regs:
            if self.is_mem(n):
                for a_ in self.mem_range(n):
                    key = self.path + '.%s#%d' % (n, a_)
                    if key not in self.d.next_state: self.d.next_state[key] = self.value('%s#%d' % (n, a_))
                continue
            key = self.path + '.' + n
            if key not in self.d.next_state:
                self.d.next_state[key] = self.value(n)

    def _cur(self, name, env):
        return env[name] if name in env else self.value(name)

    def _exec(self, st, env, nb, guard, assigned, blocking_only=False):
        n0 = len(self.d.undef_conds)
        try:
            return self._exec1(st, env, nb, guard, assigned, blocking_only)
        finally:
            # an x read in a statement only matters on the paths that execute the statement
            if st[0] in ('b', 'nb'):
                for i in range(n0, len(self.d.undef_conds)):
                    self.d.undef_conds[i] = ir.band_(guard, self.d.undef_conds[i])

    def _exec1(self, st, env, nb, guard, assigned, blocking_only=False):
        k = st[0]
        if k == 'block':
            for x in st[1]: self._exec(x, env, nb, guard, assigned, blocking_only)
        elif k == 'if':
            c = self._truth_env(st[1], env)
            ea = dict(env); na = dict(nb)
            self._exec(st[2], ea, na, ir.band_(guard, c), assigned, blocking_only)
            eb = dict(env); nb2 = dict(nb)
            if st[3]: self._exec(st[3], eb, nb2, ir.band_(guard, ir.not_(c)), assigned, blocking_only)
            for n in set(ea) | set(eb):
                if n in ea and n in eb:
                    env[n] = ir.ite(c, ea[n], eb[n]); continue
                cur = env[n] if n in env else self.value(n)
                env[n] = ir.ite(c, ea.get(n, cur), eb.get(n, cur))
            for n in set(na) | set(nb2):
                if n in na and n in nb2:
                    nb[n] = ir.ite(c, na[n], nb2[n]); continue
                cur = nb[n] if n in nb else (env[n] if n in env else self.value(n))
                nb[n] = ir.ite(c, na.get(n, cur), nb2.get(n, cur))
        elif k == 'case':
            sel = st[1]
            chain = st[3]
            for labels, body in reversed(st[2]):
                cond = None
                for lab in labels:
                    t = ('bin', '==', sel, lab)
                    cond = t if cond is None else ('bin', '||', cond, t)
                chain = ('if', cond, body, chain)
            if chain is not None: self._exec(chain, env, nb, guard, assigned, blocking_only)
        elif k in ('b', 'nb'):
            lhs = st[1]; n = lhs[1]
            w = self.width(n)
            saved = self.value
            # evaluate rhs with blocking updates visible
            v = self._assign_env(st[2], self._lhs_width(lhs), env)
            if lhs[0] == 'bit' and self.is_mem(n):
                # mem[idx] = v / mem[idx] <= v: every word keeps its value except the addressed one
                idx = self._eval_env(lhs[2], env)
                for a_ in self.mem_range(n):
                    wn = '%s#%d' % (n, a_)
                    cur = nb[wn] if (k == 'nb' and wn in nb) else self._cur(wn, env)
                    nv = ir.ite(ir.eq(idx, a_), v, cur)
                    if k == 'b': env[wn] = nv
                    else: nb[wn] = nv
                assigned.add(n)
                return
            if lhs[0] != 'id':
                if lhs[0] == 'bit':
                    idx = self._eval_env(lhs[2], env)
                    cur = (nb.get(n) if k == 'nb' and n in nb else self._cur(n, env))
                    bitv = ir.mod(ir.shr(cur, idx), 2)
                    v = ir.add(ir.sub(cur, ir.shl(bitv, idx)), ir.shl(v, idx))
                else:
                    raise VError('part-select assignment in a process')
            assigned.add(n)
            if k == 'b': env[n] = v
            else: nb[n] = v

    def _lhs_width(self, lhs):
        if lhs[0] == 'id': return self.width(lhs[1])
        if lhs[0] == 'bit' and self.is_mem(lhs[1]): return self.width(lhs[1])
        if lhs[0] == 'bit': return 1
        return self.d._const(lhs[2], self.params) - self.d._const(lhs[3], self.params) + 1

    def _with_env(self, env, f):
        saved = dict(self.memo)
        for n, v in env.items(): self.memo[n] = v
        try:
            return f()
        finally:
            self.memo = saved

    def _truth_env(self, e, env): return self._with_env(env, lambda: self.truth(e))
    def _eval_env(self, e, env): return self._with_env(env, lambda: self.self_eval(e)[0])
    def _assign_env(self, e, w, env): return self._with_env(env, lambda: self.assign_value(e, w))
