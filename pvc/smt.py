"""pvc.smt -- back ends for pvc.ir terms: z3 Int mode (parametric), z3 BV mode (exact integers in
interval-sized signed bit-vectors) and the prove() driver (z3, then cvc5 via SMT-LIB on unknown).
"""
import time, subprocess, tempfile, os
import z3
from . import ir

# ----------------------------------------------------------------------------- Int mode
_pow2 = z3.Function('pow2', z3.IntSort(), z3.IntSort())
_band = z3.Function('band', z3.IntSort(), z3.IntSort(), z3.IntSort())
_bor = z3.Function('bor', z3.IntSort(), z3.IntSort(), z3.IntSort())
_bxor = z3.Function('bxor', z3.IntSort(), z3.IntSort(), z3.IntSort())
_ufs = {}
_arr_info = {}   # name -> (length:int|None, lo, hi)


def declare_array(name, length=None, lo=None, hi=None):
    _arr_info[name] = (length, lo, hi)


_IMUL = z3.Function('imul', z3.IntSort(), z3.IntSort(), z3.IntSort())
_IMOD = z3.Function('imod', z3.IntSort(), z3.IntSort(), z3.IntSort())


class IntEnc:
    """translate ir terms to z3 Int/Bool; collect the axiom instances the terms call for"""

    def __init__(self):
        self.memo = {}
        self.pow2_args = {}      # z3 sexpr -> z3 term
        self.bitops = []         # (kind, ir a, ir b, z3 a, z3 b, z3 result)
        self.vars = {}
        self.extra = []
        self.opaque_mul = False  # products of two non-constant terms as an uninterpreted function plus sign / unit facts
        self.uf_mod = False      # x mod (non-literal divisor) as an uninterpreted function with its range fact only (congruence suffices)

    def z(self, t):
        m = self.memo
        for n in ir.walk(t):
            if n.id in m:
                continue
            m[n.id] = self._node(n, [m[a.id] for a in n.args])
        return m[t.id]

    def _mod(self, x, y):
        if not self.uf_mod or z3.is_int_value(z3.simplify(y)): return x % y
        if not getattr(self, '_imod_axiom', False):
            self._imod_axiom = True
            u, v = z3.Ints('imod!x imod!y')
            self.extra.append(z3.ForAll([u, v], z3.Implies(v > 0, z3.And(_IMOD(u, v) >= 0, _IMOD(u, v) < v)), patterns=[_IMOD(u, v)]))
        return _IMOD(x, y)

    def _p2(self, ez):
        ez = z3.simplify(ez)
        if z3.is_int_value(ez):
            v = ez.as_long()
            return z3.IntVal(1 << v) if v >= 0 else _pow2(ez)
        self.pow2_args[ez.sexpr()] = ez
        return _pow2(ez)

    def _node(self, n, a):
        op = n.op
        if op == 'const': return z3.IntVal(n.val)
        if op == 'bconst': return z3.BoolVal(n.val)
        if op == 'var':
            if self.vars.get(n.val, n) is not n: raise ValueError('two variables named %s in one query' % n.val)
            v = z3.Int(n.val); self.vars[n.val] = n; return v
        if op == 'bvar':
            self.vars[n.val] = n; return z3.Bool(n.val)
        if op == 'avar':
            self.vars[n.val] = n; return z3.Array(n.val, z3.IntSort(), z3.IntSort())
        if op == 'add': return a[0] + a[1]
        if op == 'sub': return a[0] - a[1]
        if op == 'mul':
            if self.opaque_mul and n.args[0].op != 'const' and n.args[1].op != 'const':
                if not getattr(self, '_imul_axiom', False):
                    # true facts of integer multiplication, instantiated by trigger on every product occurring in the query
                    self._imul_axiom = True
                    x, y = z3.Ints('imul!x imul!y'); p = _IMUL(x, y)
                    self.extra.append(z3.ForAll([x, y], z3.And(
                        p == _IMUL(y, x),
                        z3.Implies(z3.And(x >= 0, y >= 0), p >= 0), z3.Implies(z3.And(x >= 1, y >= 1), z3.And(p >= x, p >= y)),
                        z3.Implies(x == 0, p == 0), z3.Implies(x == 1, p == y), z3.Implies(x == -1, p == -y)), patterns=[p]))
                return _IMUL(a[0], a[1])
            return a[0] * a[1]
        if op == 'neg': return -a[0]
        if op == 'fdiv': return a[0] / a[1]
        if op == 'mod': return self._mod(a[0], a[1])
        if op == 'pow2': return self._p2(a[0])
        if op == 'shl': return a[0] * self._p2(a[1])
        if op == 'shr': return a[0] / self._p2(a[1])
        if op == 'bnot': return -a[0] - 1
        if op in ('band', 'bor', 'bxor'):
            x, y = n.args
            if op == 'band':
                for (p, q, pz) in ((x, y, a[0]), (y, x, a[1])):
                    w = ir._mask_width(q)
                    if w is not None:
                        return self._mod(pz, self._p2(self.z(w)))
            if op == 'band':
                # single-bit test: x & 2**k == 2**k * ((x div 2**k) mod 2)   (exact for all integers x, k >= 0)
                for (p, q, pz) in ((x, y, a[0]), (y, x, a[1])):
                    k = None
                    if q.op == 'pow2': k = q.args[0]
                    elif q.op == 'shl' and q.args[0].op == 'const' and q.args[0].val == 1: k = q.args[1]
                    elif q.op == 'const' and q.val > 0 and q.val & (q.val - 1) == 0: k = ir.const(q.val.bit_length() - 1)
                    if k is not None:
                        pk = self._p2(self.z(k))
                        return pk * ((pz / pk) % 2)
            f = {'band': _band, 'bor': _bor, 'bxor': _bxor}[op]
            r = f(a[0], a[1])
            self.bitops.append((op, x, y, a[0], a[1], r))
            return r
        if op == 'ite': return z3.If(a[0], a[1], a[2])
        if op == 'aite': return z3.If(a[0], a[1], a[2])
        if op == 'sel': return z3.Select(a[0], a[1])
        if op == 'store': return z3.Store(a[0], a[1], a[2])
        if op == 'uf':
            key = (n.val, len(a))
            f = _ufs.get(key)
            if f is None:
                f = z3.Function('uf_' + n.val, *([z3.IntSort()] * (len(a) + 1))); _ufs[key] = f
            return f(*a)
        if op == 'eq': return a[0] == a[1]
        if op == 'aeq': return a[0] == a[1]
        if op == 'ne': return a[0] != a[1]
        if op == 'lt': return a[0] < a[1]
        if op == 'le': return a[0] <= a[1]
        if op == 'gt': return a[0] > a[1]
        if op == 'ge': return a[0] >= a[1]
        if op == 'and': return z3.And(*a)
        if op == 'or': return z3.Or(*a)
        if op == 'not': return z3.Not(a[0])
        if op == 'iff': return a[0] == a[1]
        if op == 'forall':
            if len(a) > 1:
                return z3.ForAll([z3.Int(x) for x in n.val], a[0], patterns=[a[1] if len(a) == 2 else z3.MultiPattern(*a[1:])])
            return z3.ForAll([z3.Int(x) for x in n.val], a[0])
        if op == 'exists': return z3.Exists([z3.Int(x) for x in n.val], a[0])
        raise KeyError(op)

    def axioms(self):
        ax = [_pow2(0) == 1]
        ps = list(self.pow2_args.values())
        for t in ps:
            ax += [z3.Implies(t >= 0, _pow2(t) >= 1),
                   z3.Implies(t >= 0, _pow2(t + 1) == 2 * _pow2(t)),
                   z3.Implies(t >= 1, _pow2(t) == 2 * _pow2(t - 1))]
        for i in range(len(ps)):
            for j in range(len(ps)):
                if i != j:
                    s, t = ps[i], ps[j]
                    ax.append(z3.Implies(z3.And(s >= 0, s < t), 2 * _pow2(s) <= _pow2(t)))
                    ax.append(z3.Implies(s == t, _pow2(s) == _pow2(t)))
        # product lemma instances: pow2(s) * pow2(t) == pow2(s + t) whenever s + t is itself an exponent in use
        keys = {z3.simplify(t).sexpr(): t for t in ps}
        for i in range(len(ps)):
            for j in range(i, len(ps)):
                su = z3.simplify(ps[i] + ps[j])
                if su.sexpr() in keys or z3.is_int_value(su):
                    ax.append(z3.Implies(z3.And(ps[i] >= 0, ps[j] >= 0), _pow2(ps[i]) * _pow2(ps[j]) == self._p2(su)))
        for (op, x, y, xz, yz, r) in self.bitops:
            # exact identities for all integers
            ax.append(_band(xz, yz) + _bor(xz, yz) == xz + yz)
            ax.append(_bxor(xz, yz) == _bor(xz, yz) - _band(xz, yz))
            ax.append(_band(xz, yz) == _band(yz, xz))
            ax.append(_bor(xz, yz) == _bor(yz, xz))
            nn = z3.And(xz >= 0, yz >= 0)
            ax.append(z3.Implies(nn, z3.And(_band(xz, yz) >= 0, _band(xz, yz) <= xz, _band(xz, yz) <= yz)))
            ax.append(z3.Implies(nn, z3.And(_bor(xz, yz) >= xz, _bor(xz, yz) >= yz)))
            # disjoint-support lemma: (u * 2^k) & v == 0 when 0 <= v < 2^k
            for (p, q, pz, qz) in ((x, y, xz, yz), (y, x, yz, xz)):
                k = None
                if p.op == 'shl': k = p.args[1]
                elif p.op == 'mul' and p.args[1].op == 'pow2': k = p.args[1].args[0]
                elif p.op == 'mul' and p.args[0].op == 'pow2': k = p.args[0].args[0]
                if k is not None:
                    kz = self.z(k)
                    ax.append(z3.Implies(z3.And(kz >= 0, qz >= 0, qz < self._p2(kz)), _band(pz, qz) == 0))
                if p.op == 'const' and p.val > 0 and p.val & (p.val - 1) == 0:
                    # the same lemma for a literal power of two: 2^k & v == 0 when 0 <= v < 2^k
                    ax.append(z3.Implies(z3.And(qz >= 0, qz < p.val), _band(pz, qz) == 0))
        # re-run pow2 axioms for terms introduced by the lemma instances above
        if len(self.pow2_args) != len(ps):
            for t in list(self.pow2_args.values())[len(ps):]:
                ax += [z3.Implies(t >= 0, _pow2(t) >= 1)]
        return ax + self.extra

    def range_hyps(self):
        hy = []
        for name, n in self.vars.items():
            if n.op == 'var':
                lo, hi = ir.var_range(n)
                if lo is not None: hy.append(z3.Int(name) >= lo)
                if hi is not None: hy.append(z3.Int(name) <= hi)
        return hy


# ----------------------------------------------------------------------------- BV mode
class Unbounded(Exception):
    pass


def _bits_signed(lo, hi):
    """minimal two's complement width holding every integer of [lo, hi]"""
    w = 1
    while not (-(1 << (w - 1)) <= lo and hi <= (1 << (w - 1)) - 1):
        w += 1
        if w > 20000: raise Unbounded('interval too wide')
    return w


class Intervals:
    def __init__(self):
        self.memo = {}

    def rng(self, t):
        m = self.memo
        for n in ir.walk(t):
            if n.id not in m and n.sort == 'i':
                m[n.id] = self._node(n)
        return m[t.id]

    def _node(self, n):
        m = self.memo
        op = n.op
        h = ir.range_hint(n)
        if h is not None: return h
        A = [m.get(a.id) for a in n.args]
        if op == 'const': return (n.val, n.val)
        if op == 'var':
            lo, hi = ir.var_range(n)
            if lo is None or hi is None: raise Unbounded('variable %s has no declared range' % n.val)
            return (lo, hi)
        if op == 'add': return (A[0][0] + A[1][0], A[0][1] + A[1][1])
        if op == 'sub': return (A[0][0] - A[1][1], A[0][1] - A[1][0])
        if op == 'neg': return (-A[0][1], -A[0][0])
        if op == 'bnot': return (-A[0][1] - 1, -A[0][0] - 1)
        if op == 'mul':
            c = [x * y for x in A[0] for y in A[1]]; return (min(c), max(c))
        if op == 'mod':
            lo, hi = A[1]
            if lo <= 0:
                # divisor sign unknown (0 excluded by a separate obligation): |result| < max|divisor|
                m = max(abs(lo), abs(hi)); return (-m, m)
            if A[0][0] >= 0 and A[0][1] < lo: return A[0]
            return (0, hi - 1)
        if op == 'fdiv':
            lo, hi = A[1]
            if lo <= 0:
                m = max(abs(A[0][0]), abs(A[0][1])); return (-m - 1, m + 1)
            c = [x // y for x in A[0] for y in A[1]]; return (min(c), max(c))
        if op == 'pow2':
            lo, hi = A[0]
            if lo < 0 or hi > 4096: raise Unbounded('pow2 exponent range')
            return (1 << lo, 1 << hi)
        if op == 'shl':
            lo, hi = A[1]
            if lo < 0: lo = 0
            if hi > 4096: raise Unbounded('shift amount range')
            c = [x << k for x in A[0] for k in (lo, hi)]; return (min(c), max(c))
        if op == 'shr':
            lo, hi = A[1]
            if lo < 0: lo = 0
            c = [x >> k for x in A[0] for k in (lo, min(hi, 1 << 14))]; return (min(c), max(c))
        if op in ('band', 'bor', 'bxor'):
            (a0, a1), (b0, b1) = A
            if a0 >= 0 and b0 >= 0:
                if op == 'band': return (0, min(a1, b1))
                w = max(a1.bit_length(), b1.bit_length()); return (0, (1 << w) - 1)
            if op == 'band' and (a0 >= 0 or b0 >= 0):
                return (0, a1 if a0 >= 0 else b1) if not (a0 >= 0 and b0 >= 0) else (0, min(a1, b1))
            w = max(_bits_signed(a0, a1), _bits_signed(b0, b1))
            return (-(1 << (w - 1)), (1 << (w - 1)) - 1)
        if op == 'ite':
            return (min(A[1][0], A[2][0]), max(A[1][1], A[2][1]))
        if op == 'sel':
            arr = n.args[0]
            while arr.op in ('store', 'aite'):
                arr = arr.args[0] if arr.op == 'store' else arr.args[1]
            # conservative: range of declared array union ranges of all stored values
            lo, hi = self._arr_rng(n.args[0])
            return (lo, hi)
        if op == 'uf':
            info = _uf_info.get(n.val)
            if info is None: raise Unbounded('uf %s without declared range' % n.val)
            return info['range'](A) if callable(info['range']) else info['range']
        raise Unbounded('no interval rule for ' + op)

    def _arr_rng(self, arr):
        if arr.op == 'avar':
            ln, lo, hi = _arr_info.get(arr.val, (None, None, None))
            if lo is None or hi is None: raise Unbounded('array %s without declared element range' % arr.val)
            return (lo, hi)
        if arr.op == 'store':
            b = self._arr_rng(arr.args[0]); v = self.rng(arr.args[2])
            return (min(b[0], v[0]), max(b[1], v[1]))
        if arr.op == 'aite':
            b = self._arr_rng(arr.args[1]); c = self._arr_rng(arr.args[2])
            return (min(b[0], c[0]), max(b[1], c[1]))
        raise Unbounded('array op ' + arr.op)


_uf_info = {}


def declare_uf(name, rng):
    """rng: (lo,hi) or callable(list of arg ranges) -> (lo,hi)"""
    _uf_info[name] = {'range': rng}


class BVEnc:
    """exact integer semantics in bit-vectors: every int term becomes a signed BV whose width
    holds its whole interval, so no operation can wrap"""

    def __init__(self):
        self.iv = Intervals()
        self.memo = {}
        self.vars = {}
        self.IW = None
        self.EW = {}
        self.ufdecl = {}
        self.opaque_mul = False
        self.mulw = None
        self.mul_hyps = []

    def width(self, t):
        lo, hi = self.iv.rng(t)
        return _bits_signed(lo, hi)

    def _ext(self, bv, w):
        n = bv.size()
        if n == w: return bv
        if n > w: return z3.Extract(w - 1, 0, bv)
        return z3.SignExt(w - n, bv)

    def prepare(self, terms):
        """pre-pass: index width for arrays"""
        iw = 2
        seen = set()
        for t in terms:
            for n in ir.walk(t, seen):
                if n.op in ('sel', 'store'):
                    iw = max(iw, self.width(n.args[1]))
                if n.op == 'avar':
                    ln = _arr_info.get(n.val, (None,))[0]
                    if ln: iw = max(iw, _bits_signed(0, ln))
        self.IW = iw
        if self.opaque_mul:
            mw = 2
            seen = set()
            for t in terms:
                for n in ir.walk(t, seen):
                    if n.op == 'mul' and n.args[0].op != 'const' and n.args[1].op != 'const':
                        mw = max(mw, self.width(n.args[0]), self.width(n.args[1]))
            self.mulw = mw
            self.mulf = z3.Function('opaque_mul', z3.BitVecSort(mw), z3.BitVecSort(mw), z3.BitVecSort(2 * mw))

    def z(self, t):
        m = self.memo
        for n in ir.walk(t):
            if n.id in m: continue
            m[n.id] = self._node(n, [m[a.id] for a in n.args])
        return m[t.id]

    def _arr_ew(self, arr):
        lo, hi = self.iv._arr_rng(arr)
        return _bits_signed(lo, hi)

    def _node(self, n, a):
        op = n.op
        if op == 'bconst': return z3.BoolVal(n.val)
        if op == 'bvar':
            self.vars[n.val] = n; return z3.Bool(n.val)
        if op == 'and': return z3.And(*a)
        if op == 'or': return z3.Or(*a)
        if op == 'not': return z3.Not(a[0])
        if op == 'iff': return a[0] == a[1]
        if op in ('eq', 'ne', 'lt', 'le', 'gt', 'ge'):
            w = max(a[0].size(), a[1].size())
            x = self._ext(a[0], w); y = self._ext(a[1], w)
            return {'eq': x == y, 'ne': x != y, 'lt': x < y, 'le': x <= y, 'gt': x > y, 'ge': x >= y}[op]
        if op == 'avar':
            self.vars[n.val] = n
            ew = self._arr_ew(n)
            return z3.Array(n.val, z3.BitVecSort(self.IW), z3.BitVecSort(ew))
        if op == 'store':
            ew = self._arr_ew(n)
            base = a[0]
            bew = base.sort().range().size()
            if bew != ew:
                raise Unbounded('array element width grows on store; declare a wider element range')
            return z3.Store(base, self._ext(a[1], self.IW), self._ext(a[2], ew))
        if op == 'aite':
            return z3.If(a[0], a[1], a[2])
        if op == 'aeq':
            return a[0] == a[1]
        # integer-sorted
        w = self.width(n)
        if op == 'const': return z3.BitVecVal(n.val, w)
        if op == 'var':
            if self.vars.get(n.val, n) is not n: raise ValueError('two variables named %s in one query' % n.val)
            self.vars[n.val] = n
            lo, hi = ir.var_range(n)
            if lo >= 0:
                uw = max(1, hi.bit_length())
                v = z3.BitVec(n.val, uw)
                return z3.ZeroExt(w - uw, v) if w > uw else v
            return z3.BitVec(n.val, w)
        if op == 'sel':
            return self._ext(z3.Select(a[0], self._ext(a[1], self.IW)), w)
        if op == 'mul' and self.opaque_mul and n.args[0].op != 'const' and n.args[1].op != 'const':
            # multiplier kept opaque (uninterpreted, congruent): only its interval is known
            r = self.mulf(self._ext(a[0], self.mulw), self._ext(a[1], self.mulw))
            lo, hi = self.iv.rng(n)
            self.mul_hyps.append(z3.And(r >= z3.BitVecVal(lo, 2 * self.mulw), r <= z3.BitVecVal(hi, 2 * self.mulw)))
            return self._ext(r, w)
        if op in ('add', 'sub', 'mul'):
            W = max(w, a[0].size(), a[1].size())
            x = self._ext(a[0], W); y = self._ext(a[1], W)
            r = x + y if op == 'add' else x - y if op == 'sub' else x * y
            return self._ext(r, w)
        if op == 'neg':
            W = max(w, a[0].size()); return self._ext(-self._ext(a[0], W), w)
        if op == 'bnot':
            W = max(w, a[0].size()); return self._ext(~self._ext(a[0], W), w)
        if op in ('band', 'bor', 'bxor'):
            W = max(w, a[0].size(), a[1].size())
            x = self._ext(a[0], W); y = self._ext(a[1], W)
            r = x & y if op == 'band' else x | y if op == 'bor' else x ^ y
            return self._ext(r, w)
        if op == 'ite':
            return z3.If(a[0], self._ext(a[1], w), self._ext(a[2], w))
        if op == 'pow2':
            W = max(w, a[0].size() + 1)
            return self._ext(z3.BitVecVal(1, W) << self._ext(a[0], W), w)
        if op == 'shl':
            W = max(w, a[0].size(), a[1].size() + 1)
            return self._ext(self._ext(a[0], W) << self._ext(a[1], W), w)
        if op == 'shr':
            W = max(w, a[0].size(), a[1].size() + 1)
            return self._ext(self._ext(a[0], W) >> self._ext(a[1], W), w)   # arithmetic shift = floor
        if op == 'mod':
            d = n.args[1]
            if d.op == 'const' and d.val > 0 and d.val & (d.val - 1) == 0:
                k = d.val.bit_length() - 1
                if k == 0: return z3.BitVecVal(0, w)
                x = a[0]
                if x.size() < k: x = self._ext(x, k)
                r = z3.ZeroExt(1, z3.Extract(k - 1, 0, x))
                return self._ext(r, w)
            W = max(w, a[0].size(), a[1].size()) + 1
            return self._ext((self._ext(a[0], W) % self._ext(a[1], W)), w)
        if op == 'fdiv':
            d = n.args[1]
            if d.op == 'const' and d.val > 0 and d.val & (d.val - 1) == 0:
                k = d.val.bit_length() - 1
                W = max(w, a[0].size())
                x = self._ext(a[0], W)
                if k >= W:
                    k = W - 1          # an arithmetic shift by the width or more yields the sign fill, as a shift by W-1 does
                return self._ext(x >> k, w)
            W = max(w, a[0].size(), a[1].size()) + 1
            x = self._ext(a[0], W); y = self._ext(a[1], W)
            q = x / y            # signed, truncating
            r = z3.SRem(x, y)
            fl = z3.If(z3.And(r != 0, (r < 0) != (y < 0)), q - 1, q)
            return self._ext(fl, w)
        if op == 'uf':
            key = n.val
            sizes = tuple(x.size() for x in a) + (w,)
            d = self.ufdecl.get(key)
            if d is None:
                d = (z3.Function('ufbv_' + key, *[z3.BitVecSort(s) for s in sizes]), sizes)
                self.ufdecl[key] = d
            f, sz = d
            if sz != sizes: raise Unbounded('uf %s used at two different bit widths' % key)
            return f(*a)
        raise KeyError(op)

    def range_hyps(self):
        hy = []
        for name, n in self.vars.items():
            if n.op == 'var':
                lo, hi = ir.var_range(n)
                v = self.memo[n.id]
                # unsigned vars of exactly bit_length width need only the upper bound when not 2^k-1
                W = v.size()
                if lo >= 0:
                    if hi != (1 << hi.bit_length()) - 1 or hi == 0:
                        hy.append(z3.ULE(v, z3.BitVecVal(hi, W)))
                    if lo > 0:
                        hy.append(z3.UGE(v, z3.BitVecVal(lo, W)))
                else:
                    hy.append(v >= z3.BitVecVal(lo, W)); hy.append(v <= z3.BitVecVal(hi, W))
        return hy + self.mul_hyps


# ----------------------------------------------------------------------------- driver
class Verdict:
    def __init__(self, status, backend, seconds, model=None, reason=None, mode=None):
        self.status = status      # 'proved' | 'refuted' | 'unknown'
        self.backend = backend; self.seconds = seconds; self.model = model; self.reason = reason
        self.mode = mode

    def __repr__(self):
        return 'Verdict(%s,%s,%s,%.3fs%s)' % (self.status, self.mode, self.backend, self.seconds,
                                              ',' + str(self.reason) if self.reason else '')


def _model_to_dict(model, enc, bvmode):
    out = {}
    for name, n in enc.vars.items():
        if n.op == 'var':
            zt = enc.memo[n.id]
            v = model.eval(zt, model_completion=True)
            try:
                if bvmode and ir.var_range(n)[0] < 0:
                    val = v.as_signed_long()
                else:
                    val = v.as_long()
                out[name] = val
            except Exception:
                pass
        elif n.op == 'bvar':
            out[name] = bool(z3.is_true(model.eval(z3.Bool(name), model_completion=True)))
        elif n.op == 'avar':
            out[name] = str(model.eval(enc.memo[n.id], model_completion=True))[:2000]
            # the words of a declared finite array, for native replay
            ln = (_arr_info.get(name) or (None,))[0]
            if isinstance(ln, int) and 0 < ln <= 4096:
                try:
                    arr = enc.memo[n.id]; isort = arr.sort().domain()
                    words = []
                    for i in range(ln):
                        idx = z3.BitVecVal(i, isort.size()) if z3.is_bv_sort(isort) else z3.IntVal(i)
                        words.append(model.eval(z3.Select(arr, idx), model_completion=True).as_long())
                    out[name + '#words'] = words
                except Exception:
                    pass
    return out


def _cvc5_check(solver, timeout_s):
    """second opinion on z3 'unknown' via SMT-LIB text and the cvc5 binary"""
    txt = solver.to_smt2()
    if 'declare-fun pow2' in txt or 'Int' in txt:
        logic = 'ALL'
    else:
        logic = 'ALL'
    txt = '(set-logic %s)\n' % logic + txt
    fd, path = tempfile.mkstemp(suffix='.smt2', prefix='pvc_')
    try:
        with os.fdopen(fd, 'w') as f: f.write(txt)
        try:
            p = subprocess.run(['/usr/bin/cvc5', '--tlimit=%d' % int(timeout_s * 1000), path],
                               capture_output=True, text=True, timeout=timeout_s + 5)
            out = p.stdout.strip().split('\n')[0] if p.stdout.strip() else ''
        except subprocess.TimeoutExpired:
            out = 'timeout'
        return out
    finally:
        try: os.unlink(path)
        except OSError: pass


def prove(hyps, goal, mode='int', timeout_s=10, want_model=True, use_cvc5=True, extra_axioms=None, opaque_mul=False, retries=0, uf_mod=False):
    """decide hyps |= goal.  mode 'int' (parametric) or 'bv' (all variable ranges declared)."""
    t0 = time.time()
    hyps = [ir.truth(h) for h in hyps]
    goal = ir.truth(goal)
    if goal.op == 'bconst' and goal.val:
        return Verdict('proved', 'fold', 0.0, mode=mode)
    try:
        if mode == 'bv':
            enc = BVEnc(); enc.opaque_mul = opaque_mul; enc.prepare(hyps + [goal])
        else:
            enc = IntEnc(); enc.opaque_mul = opaque_mul; enc.uf_mod = uf_mod
        zh = [enc.z(h) for h in hyps]
        zg = enc.z(goal)
    except Unbounded as e:
        return Verdict('unknown', 'none', time.time() - t0, reason='bv-unbounded: %s' % e, mode=mode)
    s = z3.Solver() if mode == 'bv' else z3.SolverFor('ALL') if False else z3.Solver()
    s.set('timeout', int(timeout_s * 1000))
    if mode == 'int':
        if extra_axioms:
            for f in extra_axioms: enc.extra.append(enc.z(f))
        s.add(enc.axioms())
    s.add(enc.range_hyps())
    s.add(zh)
    s.add(z3.Not(zg))
    r = s.check()
    # quantifier instantiation is sensitive to incidental term order: an `unknown` is retried with other seeds (a proof found
    # under any seed is a proof; `unknown` is never turned into anything else)
    for k in range(retries):
        if r != z3.unknown: break
        s2 = z3.Solver(); s2.set('timeout', int(timeout_s * 1000)); s2.set('random_seed', 7 * k + 3)
        if mode == 'int': s2.add(enc.axioms())
        s2.add(enc.range_hyps()); s2.add(list(reversed(zh)) if k % 2 == 0 else zh); s2.add(z3.Not(zg))
        r = s2.check(); s = s2
    dt = time.time() - t0
    if r == z3.unsat:
        return Verdict('proved', 'z3', dt, mode=mode)
    if r == z3.sat:
        md = _model_to_dict(s.model(), enc, mode == 'bv') if want_model else None
        return Verdict('refuted', 'z3', dt, model=md, mode=mode)
    reason = s.reason_unknown()
    if use_cvc5:
        out = _cvc5_check(s, timeout_s)
        dt = time.time() - t0
        if out == 'unsat':
            return Verdict('proved', 'cvc5', dt, mode=mode)
        reason += '; cvc5: ' + out
    return Verdict('unknown', 'z3', dt, reason=reason, mode=mode)


def satisfiable(hyps, mode='int', timeout_s=10):
    """reachability / vacuity check: are the hypotheses jointly satisfiable?"""
    v = prove(hyps, ir.FALSE, mode=mode, timeout_s=timeout_s, use_cvc5=False)
    if v.status == 'refuted': return True, v
    if v.status == 'proved': return False, v
    return None, v
