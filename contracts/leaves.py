"""Sidecar contracts for the primitive (leaf) blocks of py4hw/logic.  Functional postconditions are
taken from the property statements (C06-C09): `out[k]` means  k.value' == (expr) mod 2**k.width ,
`nxt[k]` the same for the prepared value, `fields[f]` the post value of a leaf-private field.
Expressions are evaluated over the PRE-state; `new.<field>` refers to the specified post value.
Requires are taken from the constructors (what they assert / build) and from the call sites.
"""
import itertools
import py4hw
from py4hw.logic import bitwise as B, arithmetic as A, storage as S, clock as CK
from pvc.leaf import leaf, func

F_BIT = 'py4hw/logic/bitwise.py'
F_AR = 'py4hw/logic/arithmetic.py'
F_ST = 'py4hw/logic/storage.py'
F_CK = 'py4hw/logic/clock.py'

QW = [1, 2, 3, 4, 5, 8]
TW = QW + [6, 7, 9, 16, 24, 31, 32, 33, 63, 64, 65]


def widths(tier):
    return QW if tier == 'quick' else TW


def grid(keys, tier, extra=None, cap=None, filt=None):
    ws = widths(tier)
    if tier != 'quick' and len(keys) >= 3:
        ws = QW + [16, 32, 33, 64]
    out = []
    tups = list(itertools.product(ws, repeat=len(keys)))
    # stretch points far outside the small grid (a change that only shows beyond 64 extra bits must not hide)
    st = {1: [(130,)], 2: [(1, 130), (3, 131), (64, 200), (130, 1), (200, 64)],
          3: [(1, 1, 130), (64, 8, 200), (130, 130, 1), (2, 130, 200)]}.get(len(keys), [])
    for tup in tups + st:
        d = dict(zip(keys, tup))
        for e in (extra or [{}]):
            dd = dict(d); dd.update(e)
            if filt is None or filt(dd): out.append(dd)
    return out


def wire(sys, name, w):
    return sys.wire(name, w)


def W(sys, c, *names):
    return [sys.wire(n, c[n]) for n in names]


# ------------------------------------------------------------------------- bitwise
leaf(F_BIT, 'And2', 'propagate', props=('C08', 'C06'),
     make=lambda s, c: B.And2(s, 'u', *W(s, c, 'a', 'b', 'r')),
     cfgs=lambda t: grid(['a', 'b', 'r'], t), symbolic={'a': 'width', 'b': 'width', 'r': 'width'},
     out={'r': 'band(self.a.value, self.b.value)'})

leaf(F_BIT, 'Or2', 'propagate', props=('C08', 'C06'),
     make=lambda s, c: B.Or2(s, 'u', *W(s, c, 'a', 'b', 'r')),
     cfgs=lambda t: grid(['a', 'b', 'r'], t), symbolic={'a': 'width', 'b': 'width', 'r': 'width'},
     out={'r': 'bor(self.a.value, self.b.value)'})

leaf(F_BIT, 'Not', 'propagate', props=('C08', 'C06'),
     make=lambda s, c: B.Not(s, 'u', *W(s, c, 'a', 'r')),
     cfgs=lambda t: grid(['a', 'r'], t), symbolic={'a': 'width', 'r': 'width'},
     out={'r': '-self.a.value - 1'})

leaf(F_BIT, 'Buf', 'propagate', props=('C08', 'C06'),
     make=lambda s, c: B.Buf(s, 'u', *W(s, c, 'a', 'r')),
     cfgs=lambda t: grid(['a', 'r'], t), symbolic={'a': 'width', 'r': 'width'},
     out={'r': 'self.a.value'})

leaf(F_BIT, 'Constant', 'propagate', props=('C08', 'C06', 'C07'),
     make=lambda s, c: B.Constant(s, 'u', c['value'], *W(s, c, 'r')),
     cfgs=lambda t: [dict(r=w, value=v) for w in widths(t) for v in (0, 1, 5, -1, -7, (1 << w) - 1, 1 << w, (1 << 40) + 3)],
     symbolic={'r': 'width', 'value': 'field'},
     out={'r': 'self.value'})

leaf(F_BIT, 'Bit', 'propagate', props=('C08', 'C06', 'C07'),
     make=lambda s, c: B.Bit(s, 'u', s.wire('a', c['a']), c['bit'], s.wire('r', c['r'])),
     cfgs=lambda t: [dict(a=w, r=rw, bit=b) for w in widths(t) for rw in (1, 2) for b in sorted({0, w // 2, w - 1})],
     symbolic={'a': 'width', 'r': 'width', 'bit': 'field'},
     requires=['self.bit >= 0'],
     out={'r': 'fdiv(self.a.value, pow2(self.bit)) % 2'})

leaf(F_BIT, 'Range', 'propagate', props=('C08', 'C06', 'C07'),
     make=lambda s, c: B.Range(s, 'u', s.wire('a', c['a']), c['high'], c['low'], s.wire('r', c['r'])),
     cfgs=lambda t: [dict(a=w, r=rw, high=h, low=l) for w in widths(t) for l in sorted({0, w // 2}) for h in sorted({l, w - 1}) if h >= l
                     for rw in sorted({h - l + 1, 1, h - l + 2})],
     symbolic={'a': 'width', 'r': 'width', 'high': 'field', 'low': 'field'},
     requires=['self.low >= 0', 'self.high >= self.low'],
     out={'r': 'fdiv(self.a.value, pow2(self.low)) % pow2(self.high - self.low + 1)'})


def _mk_bits(cls):
    def make(s, c):
        a = s.wire('a', c['a'])
        bits = [s.wire('b%d' % i, c.get('bw', 1)) for i in range(c['a'])]
        return cls(s, 'u', a, bits)
    return make


# BitsLSBF: bits[i] (constructor order) carries bit i.  BitsMSBF: constructor order is most
# significant first; the constructor reverses its private list, so self.bits[i] carries bit i and
# the wire given at position j carries bit W-1-j.  The contract is stated on self.bits (post-reversal);
# the composer checks the constructor-order reading at block level (C08 BitsMSBF composition).
for _cls in ('BitsLSBF', 'BitsMSBF'):
    leaf(F_BIT, _cls, 'propagate', props=('C08', 'C06'),
         make=_mk_bits(getattr(B, _cls)),
         cfgs=lambda t: [dict(a=w, bw=bw) for w in (widths(t) if t == 'quick' else QW + [16, 33]) for bw in (1, 2)],
         out=lambda obj: {'bits[%d]' % i: 'fdiv(self.a.value, %d) %% 2' % (1 << i) for i in range(len(obj.bits))})


leaf(F_BIT, 'Mux2', 'propagate', props=('C08', 'C06', 'C07'),
     make=lambda s, c: B.Mux2(s, 'u', *W(s, c, 'sel', 'sel0', 'sel1', 'r')),
     cfgs=lambda t: grid(['sel0', 'sel1', 'r'], t, extra=[dict(sel=1), dict(sel=2)]),
     symbolic={'sel': 'width', 'sel0': 'width', 'sel1': 'width', 'r': 'width'},
     out={'r': 'self.sel1.value if self.sel.value % 2 == 1 else self.sel0.value'})

leaf(F_BIT, 'Repeat', 'propagate', props=('C08', 'C06'),
     make=lambda s, c: B.Repeat(s, 'u', *W(s, c, 'i', 'r')),
     cfgs=lambda t: grid(['i', 'r'], t), symbolic={'i': 'width', 'r': 'width'},
     out={'r': 'pow2(self.r.width) - 1 if self.i.value != 0 else 0'})


def _mk_cat(cls):
    def make(s, c):
        ins = [s.wire('i%d' % k, w) for k, w in enumerate(c['ins'])]
        return cls(s, 'u', ins, s.wire('r', c['r']))
    return make


def _cat_cfgs(t):
    out = []
    ws = [1, 2, 3] if t == 'quick' else [1, 2, 3, 8, 17]
    for n in ((1, 2, 3) if t == 'quick' else (1, 2, 3, 4, 6)):
        for tup in itertools.product(ws, repeat=min(n, 3)):
            ins = list(tup) + [1] * (n - len(tup))
            for rw in sorted({sum(ins), max(1, sum(ins) - 1), sum(ins) + 1}):
                out.append(dict(ins=tuple(ins), r=rw))
    return out


# contracts for the two concatenations are generated per arity (list length is structural):
# self.ins[0] is the most significant field (ConcatenateLSBF reverses its argument list in the constructor;
# the constructor-order reading "first argument least significant" is checked at block level in C08)
def _cat_out(obj):
    n = len(obj.ins)
    terms = []
    for i in range(n):
        sh = ' + '.join('self.ins[%d].width' % j for j in range(i + 1, n)) or '0'
        terms.append('self.ins[%d].value * pow2(%s)' % (i, sh))
    return {'r': ' + '.join(terms)}

for _cls in ('ConcatenateMSBF', 'ConcatenateLSBF'):
    leaf(F_BIT, _cls, 'propagate', props=('C08', 'C06'), make=_mk_cat(getattr(B, _cls)), cfgs=_cat_cfgs, shape_key=lambda c: ('n=%d' % len(c['ins']),),
         symbolic={'ins': 'widths', 'r': 'width'},
         requires=lambda obj: [' + '.join('self.ins[%d].width' % i for i in range(len(obj.ins))) + ' <= self.r.width'],
         out=_cat_out)

leaf(F_BIT, 'ShiftLeftConstant', 'propagate', props=('C07', 'C06'),
     make=lambda s, c: B.ShiftLeftConstant(s, 'u', s.wire('a', c['a']), c['n'], s.wire('r', c['r'])),
     cfgs=lambda t: grid(['a', 'r'], t, extra=[dict(n=n) for n in (0, 1, 2, 3, 9, 70)]),
     symbolic={'a': 'width', 'r': 'width', 'n': 'param'}, requires=["self.getParameterValue('n') >= 0"],
     out={'r': "self.a.value * pow2(self.getParameterValue('n'))"})

leaf(F_BIT, 'ShiftRightConstant', 'propagate', props=('C07', 'C06'),
     make=lambda s, c: B.ShiftRightConstant(s, 'u', s.wire('a', c['a']), c['n'], s.wire('r', c['r'])),
     cfgs=lambda t: grid(['a', 'r'], t, extra=[dict(n=n) for n in (0, 1, 2, 3, 9, 70)]),
     symbolic={'a': 'width', 'r': 'width', 'n': 'param'}, requires=["self.getParameterValue('n') >= 0"],
     out={'r': "fdiv(self.a.value, pow2(self.getParameterValue('n')))"})

# rotations of the W(a)-bit word by n, 0 <= n <= W(a) (statement: "all rotation amounts up to the data width")
leaf(F_BIT, 'RotateLeftConstant', 'propagate', props=('C07', 'C06'),
     make=lambda s, c: B.RotateLeftConstant(s, 'u', s.wire('a', c['a']), c['n'], s.wire('r', c['r'])),
     cfgs=lambda t: [dict(a=w, r=rw, n=n) for w in widths(t) for rw in sorted({w, 1, w + 1}) for n in sorted({0, 1, w // 2, w - 1, w})],
     symbolic={'a': 'width', 'r': 'width', 'n': 'field'}, requires=['self.n >= 0', 'self.n <= self.a.width'],
     out={'r': 'self.a.value * pow2(self.n) % pow2(self.a.width) + fdiv(self.a.value, pow2(self.a.width - self.n))'})

leaf(F_BIT, 'RotateRightConstant', 'propagate', props=('C07', 'C06'),
     make=lambda s, c: B.RotateRightConstant(s, 'u', s.wire('a', c['a']), c['n'], s.wire('r', c['r'])),
     cfgs=lambda t: [dict(a=w, r=rw, n=n) for w in widths(t) for rw in sorted({w, 1, w + 1}) for n in sorted({0, 1, w // 2, w - 1, w})],
     symbolic={'a': 'width', 'r': 'width', 'n': 'field'}, requires=['self.n >= 0', 'self.n <= self.a.width'],
     out={'r': 'fdiv(self.a.value, pow2(self.n)) + self.a.value * pow2(self.a.width - self.n) % pow2(self.a.width)'})

# ------------------------------------------------------------------------- arithmetic
leaf(F_AR, 'AddCarryIn', 'propagate', props=('C07', 'C06'),
     make=lambda s, c: A.AddCarryIn(s, 'u', *W(s, c, 'a', 'b', 'r', 'ci')),
     cfgs=lambda t: grid(['a', 'b', 'r'], t, extra=[dict(ci=1)]),
     symbolic={'a': 'width', 'b': 'width', 'r': 'width', 'ci': 'width'},
     out={'r': 'self.a.value + self.b.value + self.ci.value'})

leaf(F_AR, 'Sub', 'propagate', props=('C07', 'C06'),
     make=lambda s, c: A.Sub(s, 'u', *W(s, c, 'a', 'b', 'r')),
     cfgs=lambda t: grid(['a', 'b', 'r'], t), symbolic={'a': 'width', 'b': 'width', 'r': 'width'},
     out={'r': 'self.a.value - self.b.value'})

leaf(F_AR, 'Mul', 'propagate', props=('C07', 'C06'),
     make=lambda s, c: A.Mul(s, 'u', *W(s, c, 'a', 'b', 'r')),
     cfgs=lambda t: grid(['a', 'b', 'r'], t), symbolic={'a': 'width', 'b': 'width', 'r': 'width'},
     out={'r': 'self.a.value * self.b.value'})

leaf(F_AR, 'SignedMul', 'propagate', props=('C07', 'C06'),
     make=lambda s, c: A.SignedMul(s, 'u', *W(s, c, 'a', 'b', 'r')),
     cfgs=lambda t: grid(['a', 'b', 'r'], t), symbolic={'a': 'width', 'b': 'width', 'r': 'width'},
     out={'r': 'sx(self.a.value, self.a.width) * sx(self.b.value, self.b.width)'})

leaf(F_AR, 'Div', 'propagate', props=('C07', 'C06'),
     make=lambda s, c: A.Div(s, 'u', *W(s, c, 'a', 'b', 'r')),
     cfgs=lambda t: grid(['a', 'b', 'r'], t), symbolic={'a': 'width', 'b': 'width', 'r': 'width'},
     requires=['self.b.value != 0'],
     out={'r': 'fdiv(self.a.value, self.b.value)'},
     notes='divisor 0: the statement only asks for the range invariant (leaf Div0 below)')

leaf(F_AR, 'Mod', 'propagate', props=('C07', 'C06'),
     make=lambda s, c: A.Mod(s, 'u', *W(s, c, 'a', 'b', 'r')),
     cfgs=lambda t: grid(['a', 'b', 'r'], t), symbolic={'a': 'width', 'b': 'width', 'r': 'width'},
     requires=['self.b.value != 0'],
     out={'r': 'self.a.value % self.b.value'})

leaf(F_AR, 'SignExtend', 'propagate', props=('C07', 'C06'),
     make=lambda s, c: A.SignExtend(s, 'u', *W(s, c, 'a', 'r')),
     cfgs=lambda t: grid(['a', 'r'], t), symbolic={'a': 'width', 'r': 'width'},
     invariants={0: 'value == self.a.value + hb * (pow2(i) - pow2(self.a.width)) and hb == fdiv(self.a.value, pow2(self.a.width - 1))'},
     out={'r': 'sx(self.a.value, self.a.width)'})

leaf(F_AR, 'ZeroExtend', 'propagate', props=('C07', 'C06'),
     make=lambda s, c: A.ZeroExtend(s, 'u', *W(s, c, 'a', 'r')),
     cfgs=lambda t: grid(['a', 'r'], t), symbolic={'a': 'width', 'r': 'width'},
     out={'r': 'self.a.value'})

leaf(F_AR, 'SubBorrowIn', 'propagate', props=('C07',),
     make=lambda s, c: A.SubBorrowIn(s, 'u', *W(s, c, 'a', 'b', 'r', 'bi')),
     cfgs=lambda t: grid(['a', 'b', 'r'], t, extra=[dict(bi=1)], filt=lambda d: d['r'] >= d['a']),
     out={'r': 'self.a.value - self.b.value - self.bi.value'})

# ------------------------------------------------------------------------- storage / clock
leaf(F_ST, 'Latch', 'propagate', props=('C09', 'C06'), partial=True,
     make=lambda s, c: S.Latch(s, 'u', *W(s, c, 'd', 'q', 'e')),
     cfgs=lambda t: grid(['d', 'q'], t, extra=[dict(e=1), dict(e=2)]),
     symbolic={'d': 'width', 'q': 'width', 'e': 'width'},
     ensures=['self.q.value == (M(old(self.d.value), self.q.width) if old(self.e.value) != 0 else old(self.q.value))'],
     stateful_reads=True)


def _mk_reg(s, c):
    d = s.wire('d', c['d']); q = s.wire('q', c['q'])
    e = s.wire('e', c['e']) if c.get('e') else None
    r = s.wire('r', c['r']) if c.get('r') else None
    return S.Reg(s, 'u', d, q, enable=e, reset=r, reset_value=c.get('reset_value'))


def _reg_cfgs(t):
    out = []
    for dw, qw in itertools.product(widths(t) if t == 'quick' else QW + [32, 64], repeat=2):
        for e in (0, 1, 2):
            for r in (0, 1, 2):
                for rv in ((None, 0, 5) if r else (None,)):
                    out.append(dict(d=dw, q=qw, e=e, r=r, reset_value=rv))
    return out


# One contract text; the optional ports are structural (None or a wire) -- `self.e is None` folds.
leaf(F_ST, 'Reg', 'clock', props=('C09', 'C05', 'C06'),
     make=_mk_reg, cfgs=_reg_cfgs, shape_key=lambda c: ('e' if c['e'] else '', 'r' if c['r'] else '', 'rv' if c['reset_value'] is not None else ''),
     symbolic={'d': 'width', 'q': 'width', 'e': 'width', 'r': 'width', 'reset_value': 'field'},
     fields={'value': 'self.reset_value if (self.r is not None and self.r.value == 1) else '
                      '(self.d.value if (self.e is None or self.e.value != 0) else self.value)'},
     nxt={'q': 'new.value'})


def _mk_mem(cls):
    def make(s, c):
        aw = c['aw']; dw = c['dw']
        return cls(s, 'u', s.wire('ra', aw), s.wire('wa', aw), s.wire('we', c.get('we', 1)), s.wire('rd', dw), s.wire('wd', dw))
    return make


_mem_cfgs = lambda t: [dict(aw=aw, dw=dw, we=we) for aw in ((1, 2, 3) if t == 'quick' else (1, 2, 3, 5, 8)) for dw in (1, 3, 8) for we in (1, 2)]

leaf(F_ST, 'SynchronousMemory', 'clock', props=('C09', 'C05', 'C06'),
     make=_mk_mem(S.SynchronousMemory), cfgs=_mem_cfgs,
     array_fields={'data': dict(lo=0, hi=(1 << 64) - 1)},
     nxt={'readdata': 'self.data[self.read_address.value]'},
     arrays={'data': ('self.write_address.value', 'self.writedata.value', 'self.write.value != 0')})

leaf(F_ST, 'AsynchronousMemory', 'propagate', props=('C09', 'C06'), partial=False, stateful_reads=True,
     make=_mk_mem(S.AsynchronousMemory), cfgs=_mem_cfgs,
     array_fields={'data': dict(lo=0, hi=(1 << 64) - 1)},
     out={'readdata': 'self.data[self.read_address.value]'},
     arrays={'data': ('self.write_address.value', 'self.writedata.value', 'self.write.value != 0')})

leaf(F_CK, 'GatedClock', 'propagate', props=('C10', 'C06'),
     make=lambda s, c: CK.GatedClock(s, 'u', s.wire('enin', c['enin']), s.wire('enout', c['enout']), s.clockDriver),
     cfgs=lambda t: grid(['enin', 'enout'], t), symbolic={'enin': 'width', 'enout': 'width'},
     out={'enout': 'self.enin.value'})

leaf(F_CK, 'AutoReset', 'clock', props=('C09', 'C05'),
     make=lambda s, c: CK.AutoReset(s, 'u', s.wire('reset', c['reset'])),
     cfgs=lambda t: [dict(reset=w) for w in (1, 2)], symbolic={'reset': 'width'},
     fields={'state': '1 if self.state == 0 else (2 if self.state == 1 else (2 if self.state == 2 else 0))'},
     nxt={'reset': '1 if self.state == 0 else 0'},
     prepared={'reset': 'self.state == 0 or self.state == 2'})


def _mk_dpmem(s, c):
    aw = c['aw']; dw = c['dw']
    w = lambda n, k: s.wire(n, k)
    return S.DualPortSynchronousMemory(s, 'u', w('raa', aw), w('waa', aw), w('wea', 1), w('rda', dw), w('wda', dw),
                                       w('rab', aw), w('wab', aw), w('web', 1), w('rdb', dw), w('wdb', dw))


# both ports read the content held before the edge (statement: "read returns the content before a same-cycle write")
leaf(F_ST, 'DualPortSynchronousMemory', 'clock', props=('C09',),
     make=_mk_dpmem, cfgs=lambda t: [dict(aw=aw, dw=dw) for aw in (1, 2) for dw in (1, 8)],
     array_fields={'data': dict(lo=0, hi=(1 << 64) - 1)},
     nxt={'readdata_a': 'self.data[self.read_address_a.value]', 'readdata_b': 'self.data[self.read_address_b.value]'},
     ensures=['implies(old(self.write_a.value) != 0 and not (old(self.write_b.value) != 0 and old(self.write_address_b.value) == old(self.write_address_a.value)), '
              'self.data[old(self.write_address_a.value)] == old(self.writedata_a.value))',
              'implies(old(self.write_b.value) != 0, self.data[old(self.write_address_b.value)] == old(self.writedata_b.value))'],
     arrays={'data': ('self.write_address_b.value', 'self.writedata_b.value', 'False')})

from py4hw.logic import simulation as SIM


def _mk_seqn(s, c):
    return SIM.Sequence(s, 'u', list(c['values']), s.wire('r', c['r']), once=c['once'])


leaf('py4hw/logic/simulation.py', 'Sequence', 'clock', props=('C09', 'C05', 'C06'),
     make=_mk_seqn, shape_key=lambda c: (len(c['values']), c['once']),
     cfgs=lambda t: [dict(values=v, r=r, once=o) for v in ((3,), (1, 2), (0, 5, 300, -1)) for r in (1, 3, 8) for o in (False, True)],
     requires=['0 <= self.i and self.i < self.n'],
     fields={'i': '(self.i + 1 if self.i < self.n - 1 else self.i) if self.once else (self.i + 1) % self.n'},
     nxt={'r': 'self.values[self.i]'},
     ensures=['0 <= self.i and self.i < self.n'])
