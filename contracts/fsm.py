"""Contracts of behavioural FSM leaves (C20 command codec; C17 UART blocks).  Each contract is the one-step
transition table read off the protocol description in the property statement / class docstrings: post values of
the leaf's fields and, per output wire, the condition under which it is prepared and the value prepared.
Everything is symbolic: field values are unbounded integers, wire widths are symbolic."""
import py4hw
import py4hw.emulation.HILWrapperUART as HIL
from pvc.leaf import leaf

F_HIL = 'py4hw/emulation/HILWrapperUART.py'


def ch(c):
    return str(ord(c))


def _mk_req(s, c):
    w = lambda n, k=1: s.wire(n, k)
    return HIL.CMDRequest(s, 'u', w('ready'), w('valid'), w('c', 8), w('index_in', c['iw']), w('v_in', c['vw']), w('index_out', c['iw']),
                          w('set_index_in'), w('set_v_in'), w('set_index_out'), w('clk_pulse'), w('start_resp'))


S = 'self.state'; C = 'self.new_c'; T = 'self.temp'
IS_DEC = '(%s >= %s and %s <= %s)' % (C, ch('0'), C, ch('9'))
IS_HEX = '(%s >= %s and %s <= %s)' % (C, ch('A'), C, ch('F'))
TYPE_CH = '(%s == %s or %s == %s or %s == %s)' % (C, ch('I'), C, ch('O'), C, ch('K'))


def nest(pairs, default):
    """pairs: [(cond, value)] -> nested conditional expression text"""
    out = default
    for cond, val in reversed(pairs):
        out = '(%s if %s else %s)' % (val, cond, out)
    return out


_state2 = nest([(TYPE_CH, '0'), ('%s == %s' % (C, ch('=')), '3'), ('%s == %s' % (C, ch('!')), '5'), ('%s == %s' % (C, ch('?')), '6'),
                ('%s == %s' % (C, ch(';')), '8'), (IS_DEC, '0'), (IS_HEX, '0')], '4')

leaf(F_HIL, 'CMDRequest', 'clock', props=('C20', 'C05'),
     make=_mk_req, cfgs=lambda t: [dict(iw=8, vw=32), dict(iw=3, vw=5)],
     symbolic={'index_in': 'width', 'v_in': 'width', 'index_out': 'width', 'c': 'width', 'valid': 'width',
               'state': 'field', 'cur_type': 'field', 'new_c': 'field', 'temp': 'field'},
     requires=['self.temp >= 0'],
     fields={
         'state': nest([(S + ' == 0', '1'), (S + ' == 1', '(2 if self.valid.value != 0 else 1)'), (S + ' == 2', _state2),
                        (S + ' == 3', '4'), (S + ' == 4', '0'), (S + ' == 5', '4'), (S + ' == 6', '10'), (S + ' == 10', '7'),
                        (S + ' == 7', '4'), (S + ' == 8', '(4 if self.temp == 0 else 9)'), (S + ' == 9', '8')], S),
         # hexadecimal accumulation, most significant digit first: temp' = 16*temp + digit
         'temp': nest([(S + ' == 2 and ' + TYPE_CH, '0'),
                       (S + ' == 2 and ' + IS_DEC + ' and not (%s == %s or %s == %s or %s == %s or %s == %s)' % (C, ch('='), C, ch('!'), C, ch('?'), C, ch(';')),
                        '16 * self.temp + (%s - %s)' % (C, ch('0'))),
                       (S + ' == 2 and ' + IS_HEX, '16 * self.temp + (%s - %s + 10)' % (C, ch('A'))),
                       (S + ' == 4', '0'), (S + ' == 8 and self.temp != 0', 'self.temp - 1')], T),
         'cur_type': nest([(S + ' == 2 and %s == %s' % (C, ch('I')), '1'), (S + ' == 2 and %s == %s' % (C, ch('=')), '2'),
                           (S + ' == 2 and %s == %s' % (C, ch('O')), '3'), (S + ' == 2 and %s == %s' % (C, ch('K')), '4')], 'self.cur_type'),
         'new_c': '(self.c.value if (%s == 1 and self.valid.value != 0) else self.new_c)' % S,
     },
     prepared={'ready': S + ' == 0 or ' + S + ' == 1',
               'set_index_in': S + ' == 0 or ' + S + ' == 3 or ' + S + ' == 4',
               'set_v_in': S + ' == 0 or ' + S + ' == 4 or ' + S + ' == 5',
               'set_index_out': S + ' == 0 or ' + S + ' == 4 or ' + S + ' == 6 or ' + S + ' == 10',
               'index_in': S + ' == 3', 'v_in': S + ' == 5', 'index_out': S + ' == 6',
               'start_resp': S + ' == 4 or ' + S + ' == 7',
               'clk_pulse': S + ' == 8 or ' + S + ' == 9'},
     nxt={'ready': '(1 if %s == 0 else (0 if self.valid.value != 0 else 1))' % S,
          'set_index_in': '(1 if %s == 3 else 0)' % S, 'set_v_in': '(1 if %s == 5 else 0)' % S, 'set_index_out': '(1 if %s == 6 else 0)' % S,
          'index_in': T, 'v_in': T, 'index_out': T,
          'start_resp': '(1 if %s == 7 else 0)' % S,
          'clk_pulse': '(1 if (%s == 8 and self.temp != 0) else 0)' % S},
     ensures=['self.temp >= 0'])


def _mk_resp(s, c):
    w = lambda n, k=1: s.wire(n, k)
    return HIL.CMDResponse(s, 'u', w('vin', c['vw']), w('size', c['sw']), w('start_resp'), w('ready'), w('valid'), w('v', 8))


TS = 'self.temp_size'
# nibble k of temp (k = 0 least significant)
NIB = lambda k: 'fdiv(self.temp, pow2(4 * (%s))) %% 16' % k
DIGIT = "((%s + self.aux) if (self.aux >= 0 and self.aux <= 9) else (%s + self.aux - 10))" % (ch('0'), ch('A'))
RDY = 'self.ready.value != 0'

leaf(F_HIL, 'CMDResponse', 'clock', props=('C20', 'C05'),
     make=_mk_resp, cfgs=lambda t: [dict(vw=32, sw=8), dict(vw=5, sw=3)],
     symbolic={'vin': 'width', 'size': 'width', 'v': 'width', 'ready': 'width', 'start_resp': 'width',
               'state': 'field', 'temp': 'field', 'temp_size': 'field', 'aux': 'field'},
     # the number of digits requested is at least 1 (size == 0 would ask for a negative shift: outside the statement)
     requires=['self.temp >= 0', 'self.temp_size >= 0', '0 <= self.aux and self.aux <= 15', 'self.size.value >= 1 or self.state != 0'],
     fields={
         'state': nest([(S + ' == 0', '(1 if self.start_resp.value != 0 else 0)'), (S + ' == 1', '(2 if %s else 1)' % RDY),
                        (S + ' == 2', '(3 if %s else 2)' % RDY), (S + ' == 3', '(4 if %s else 3)' % RDY),
                        (S + ' == 4', '((5 if %s == 0 else 3) if %s else 4)' % (TS, RDY)), (S + ' == 5', '6'),
                        (S + ' == 6', '(0 if %s else 6)' % RDY)], S),
         'temp': '(self.vin.value if (%s == 0 and self.start_resp.value != 0) else self.temp)' % S,
         'temp_size': nest([(S + ' == 0 and self.start_resp.value != 0', 'self.size.value - 1'),
                            (S + ' == 4 and %s and %s != 0' % (RDY, TS), TS + ' - 1')], TS),
         # the digit sent next: most significant nibble first
         'aux': nest([(S + ' == 2 and ' + RDY, NIB(TS)), (S + ' == 4 and %s and %s != 0' % (RDY, TS), NIB(TS + ' - 1'))], 'self.aux'),
     },
     prepared={'valid': nest([(S + ' == 1', RDY), (S + ' == 2', 'True'), (S + ' == 3', RDY), (S + ' == 4', 'True'), (S + ' == 5', 'True'), (S + ' == 6', 'True')], 'False'),
               'v': nest([(S + ' == 1', RDY), (S + ' == 3', RDY), (S + ' == 5', 'True')], 'False')},
     nxt={'valid': nest([(S + ' == 1', '1'), (S + ' == 2', '(0 if %s else 1)' % RDY), (S + ' == 3', '1'), (S + ' == 4', '(0 if %s else 1)' % RDY),
                         (S + ' == 5', '1'), (S + ' == 6', '(0 if %s else 1)' % RDY)], '0'),
          # '=' , then upper-case hexadecimal digits, then '!'
          'v': nest([(S + ' == 1', ch('=')), (S + ' == 3', DIGIT)], ch('!'))},
     ensures=['self.temp >= 0', 'self.temp_size >= 0', '0 <= self.aux and self.aux <= 15'])


# ------------------------------------------------------------------------------------------------ UART (C17)
import py4hw.logic.protocol.uart.serdes as SD
import py4hw.logic.protocol.uart.clock as UC

F_SD = 'py4hw/logic/protocol/uart/serdes.py'
F_UC = 'py4hw/logic/protocol/uart/clock.py'
P = 'self.uart_clock_posedge.value != 0'


def _mk_ser(s, c):
    w = lambda n, k=1: s.wire(n, k)
    return SD.UARTSerializer(s, 'u', w('ready'), w('valid'), w('v', c['vw']), w('uart_clock_posedge'), w('tx'))


# 8N1 framing: idle/stop level 1, start bit 0, eight data bits least significant first, one bit per clock pulse
leaf(F_SD, 'UARTSerializer', 'clock', props=('C17', 'C05'),
     make=_mk_ser, cfgs=lambda t: [dict(vw=8), dict(vw=3)],
     symbolic={'v': 'width', 'valid': 'width', 'uart_clock_posedge': 'width', 'tx': 'width', 'state': 'field', 'count': 'field', 'txv': 'field'},
     requires=['self.txv >= 0'],
     fields={'state': nest([(S + ' == 0', '1'), (S + ' == 1', '(2 if self.valid.value != 0 else 1)'), (S + ' == 2', '(3 if %s else 2)' % P),
                            (S + ' == 3', '(4 if %s else 3)' % P), (S + ' == 4', '((5 if self.count == 0 else 4) if %s else 4)' % P),
                            (S + ' == 5', '(0 if %s else 5)' % P)], S),
             'count': nest([(S + ' == 3', '7'), (S + ' == 4 and %s and self.count != 0' % P, 'self.count - 1')], 'self.count'),
             'txv': nest([(S + ' == 1 and self.valid.value != 0', 'self.v.value'), (S + ' == 4 and ' + P, 'fdiv(self.txv, 2)')], 'self.txv')},
     prepared={'tx': S + ' == 0 or ' + S + ' == 3 or ' + S + ' == 4 or ' + S + ' == 5',
               'ready': S + ' == 0 or (' + S + ' == 1 and self.valid.value != 0)'},
     nxt={'tx': nest([(S + ' == 3', '0'), (S + ' == 4', 'self.txv % 2')], '1'),
          'ready': '(1 if %s == 0 else 0)' % S},
     ensures=['self.txv >= 0'])


def _mk_des(s, c):
    w = lambda n, k=1: s.wire(n, k)
    return SD.UARTDeserializer(s, 'u', w('rx'), w('rx_sample'), w('ready'), w('valid'), w('v', c['vw']), w('clock_desync'))


SMP = 'self.rx_sample.value != 0'
DONE = '(%s == 2 and %s and self.count == 8)' % (S, SMP)
SV1 = '(1 if %s else self.state_v)' % DONE           # state_v as seen by the hand-off part of the same call
RD = 'self.ready.value != 0'

leaf(F_SD, 'UARTDeserializer', 'clock', props=('C17', 'C05'),
     make=_mk_des, cfgs=lambda t: [dict(vw=8), dict(vw=10)],
     symbolic={'v': 'width', 'rx': 'width', 'rx_sample': 'width', 'ready': 'width', 'state': 'field', 'count': 'field', 'state_v': 'field', 'temp': 'field'},
     # invariant of the collector: after k samples only the k low bits of temp are occupied
     requires=['self.temp >= 0', 'self.count >= 0', 'self.temp < pow2(self.count)', '0 <= self.rx.value and self.rx.value <= 1'],
     fields={'state': nest([(S + ' == 0', '(2 if (%s and self.rx.value == 0) else 0)' % SMP), (DONE, '0')], S),
             'count': nest([(S + ' == 0', '0'), (S + ' == 2 and %s and self.count != 8' % SMP, 'self.count + 1')], 'self.count'),
             # eight samples collected least significant bit first
             'temp': nest([(S + ' == 0', '0'), (S + ' == 2 and %s and self.count != 8' % SMP, 'self.temp + self.rx.value * pow2(self.count)')], 'self.temp'),
             'state_v': nest([('%s == 1 and %s' % (SV1, RD), '2'), ('%s == 2 and %s' % (SV1, RD), '0')], SV1)},
     prepared={'clock_desync': S + ' == 0 or ' + DONE, 'v': DONE,
               'valid': '(%s == 1 or %s == 2) and %s' % (SV1, SV1, RD)},
     nxt={'clock_desync': '(1 if %s else 0)' % DONE, 'v': 'self.temp', 'valid': '(1 if %s == 1 else 0)' % SV1},
     ensures=['self.temp >= 0', 'self.count >= 0', 'self.temp < pow2(self.count)'])


def _mk_sync(s, c):
    w = lambda n, k=1: s.wire(n, k)
    return UC.ClockSyncFSM(s, 'u', w('start'), w('stop'), w('sync'), w('active'))


leaf(F_UC, 'ClockSyncFSM', 'clock', props=('C17', 'C05'),
     make=_mk_sync, cfgs=lambda t: [dict()],
     symbolic={'start': 'width', 'stop': 'width', 'state': 'field'},
     fields={'state': nest([(S + ' == 0', '(1 if self.start.value != 0 else 0)'), (S + ' == 1', '(0 if self.stop.value != 0 else 1)')], S)},
     prepared={'sync': S + ' == 0 or ' + S + ' == 1', 'active': S + ' == 0 or ' + S + ' == 1'},
     nxt={'sync': '(1 if (%s == 0 and self.start.value != 0) else 0)' % S,
          'active': '((1 if self.start.value != 0 else 0) if %s == 0 else (0 if self.stop.value != 0 else 1))' % S})
