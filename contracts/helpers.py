"""Contracts for the pure integer helpers of py4hw/helper.py (C12 integer part; callee contracts of
SignedMul and of the fixed-point helper)."""
from pvc.leaf import func

F = 'py4hw/helper.py'

func(F, 'IntegerHelper.signed_to_c2', ['v', 'w'], requires=['w >= 0'], result='M(v, w)',
     ensures=['0 <= result and result < pow2(w)',
              # round trip on the signed range
              'implies(w >= 1 and -pow2(w - 1) <= v and v < pow2(w - 1), sx(result, w) == v)'])

func(F, 'IntegerHelper.c2_to_signed', ['v', 'w'], requires=['w >= 1'], result='sx(M(v, w), w)',
     ensures=['-pow2(w - 1) <= result and result < pow2(w - 1)',
              'M(result, w) == M(v, w)',
              'implies(0 <= v and v < pow2(w), M(result, w) == v)'])

func(F, 'IntegerHelper.sign', ['v'], result='-1 if v < 0 else 1')

# signExtend(v, w, nw): the nw-bit two's complement encoding of the w-bit pattern v
func(F, 'signExtend', ['v', 'w', 'nw'], requires=['w >= 1', 'nw >= w'],
     result='M(sx(M(v, w), w), nw)')
