"""L0 contracts of Wire / BidirWire (C06).  These are exactly the summaries the symbolic executor uses at
every call site of get/put/prepare/getWidth (pvc.symexec.Executor.wire_*), proved here against the real
source of py4hw/base.py with symbolic width and symbolic argument."""
import py4hw
from pvc.leaf import leaf

F = 'py4hw/base.py'


def _mk(cls):
    def make(s, c):
        w = cls(s, 'w', c['width'])
        w.next = 0          # a wire that was prepared before carries a `next` attribute
        return w
    return make


for _cls in ('Wire', 'BidirWire'):
    K = getattr(py4hw, _cls) if hasattr(py4hw, _cls) else getattr(py4hw.base, _cls)
    common = dict(make=_mk(K), cfgs=lambda t: [dict(width=w) for w in (1, 2, 3, 8, 64)], kind='method',
                  symbolic={'width': 'field', 'value': 'field', 'next': 'field'}, props=('C06', 'C05'),
                  requires=['self.width >= 0', '0 <= self.value and self.value < pow2(self.width)',
                            '0 <= self.next and self.next < pow2(self.width)'])
    leaf(F, _cls, 'put', args=['val'], fields={'value': 'M(val, self.width)'},
         ensures=['0 <= self.value and self.value < pow2(self.width)'], **common)
    leaf(F, _cls, 'prepare', args=['val'], fields={'next': 'M(val, self.width)'}, appends=[('Wire.prepared', 'self')],
         ensures=['0 <= self.next and self.next < pow2(self.width)', 'self.value == old(self.value)'], **common)
    leaf(F, _cls, 'settle', fields={'value': 'self.next'},
         ensures=['0 <= self.value and self.value < pow2(self.width)'], **common)
    leaf(F, _cls, 'get', returns='self.value', **common)
    leaf(F, _cls, 'getWidth', returns='self.width', **common)
