"""Heap-mode contracts for py4hw.helper.FPNum (C12): the arbitrary-precision floating-point number type.

An FPNum denotes the rational  s * 2**e * m / p.  The contracts speak about that rational through an *abstract* value
function `val(s, e, m, p)` and abstract field operations `qadd`, `qmul`, `qneg`, `qcmp` over an uninterpreted carrier
(any injection of Q into Z is a model); what the proofs know about them is the list AXIOMS below.  Every axiom is a
true statement of rational arithmetic: `pvc/realsem.py` re-reads the same axiom texts, interprets val as
ite(p == 0, 0, s * 2**e * m / p) over the reals and the operations as +, *, -, sign-of-difference, and has z3 prove each
one (obligations `axiom::<name>` in C12), so the axioms are lemmas, not assumptions.  pow2p(p) reads "p is a power of two".
"""
from pvc.heapverify import hfunc, callee

H = 'py4hw/helper.py'

AXIOMS = {
    # --- powers of two
    'P1': 'forall(lambda p: implies(pow2p(p), p >= 1))',
    'P2': 'forall(lambda p, q: implies(pow2p(p) and q == 2 * p, pow2p(q)))',
    'P3': 'forall(lambda p, q: implies(pow2p(p) and pow2p(q) and p < q, 2 * p <= q))',
    'P4': 'forall(lambda p, q: implies(pow2p(p) and p == 2 * q, pow2p(q)))',
    'P5': 'forall(lambda p, q, r: implies(pow2p(p) and pow2p(q) and r == p * q, pow2p(r)))',
    'P6': 'pow2p(1)', 'K10': 'pow2p(1024)', 'K23': 'pow2p(8388608)', 'K52': 'pow2p(4503599627370496)',
    # --- the denoted value is invariant under the three renormalisation steps of the class
    'V1': 'forall(lambda s, e, m, p, e2, p2: implies(e2 == e + 1 and p2 == 2 * p, val(s, e, m, p) == val(s, e2, m, p2)))',
    'V2': 'forall(lambda s, e, m, p, m2, p2: implies(m2 == 2 * m and p2 == 2 * p, val(s, e, m, p) == val(s, e, m2, p2)))',
    'V3': 'forall(lambda s, e, m, p, e2, m2: implies(e2 == e - 1 and m2 == 2 * m, val(s, e, m, p) == val(s, e2, m2, p)))',
    # --- a negative sign is a negative mantissa
    'N1': 'forall(lambda s, e, m, p: pat(val(s, e, m, p), val(s, e, m, p) == val(0 - s, e, 0 - m, p)))',
    # --- field operations on equal exponent / precision (addition, order) and in general (product, negation)
    'A1': 'forall(lambda s, e, m1, m2, p: pat(qadd(val(s, e, m1, p), val(s, e, m2, p)), qadd(val(s, e, m1, p), val(s, e, m2, p)) == val(s, e, m1 + m2, p)))',
    'M1': 'forall(lambda s1, e1, m1, p1, s2, e2, m2, p2: pat(qmul(val(s1, e1, m1, p1), val(s2, e2, m2, p2)), qmul(val(s1, e1, m1, p1), val(s2, e2, m2, p2)) == val(s1 * s2, e1 + e2, m1 * m2, p1 * p2)))',
    'G1': 'forall(lambda s, e, m, p: pat(qneg(val(s, e, m, p)), qneg(val(s, e, m, p)) == val(s * -1, e, m, p)))',
    'S1': 'forall(lambda x, y: pat(qsub(x, y), qsub(x, y) == qadd(x, qneg(y))))',
    'C1': 'forall(lambda s, e, m1, m2, p: pat(qcmp(val(s, e, m1, p), val(s, e, m2, p)), implies(p >= 1 and (s == 1 or s == -1), '
          'qcmp(val(s, e, m1, p), val(s, e, m2, p)) == ((1 if m1 > m2 else (0 if m1 == m2 else -1)) if s == 1 else (1 if m1 < m2 else (0 if m1 == m2 else -1))))))',
}
AX = lambda *names: [AXIOMS[n] for n in names]

QV = lambda o: 'val(%s.s, %s.e, %s.m, %s.p)' % (o, o, o, o)
FINITE = lambda o: '(pow2p(%s.p) and %s.m >= 0 and (%s.s == 1 or %s.s == -1) and not %s.nan and not %s.infinity)' % (o, o, o, o, o, o)
FIELDS = ('s', 'e', 'm', 'p', 'inexact', 'infinity', 'nan')
# nothing but `self` changes in the listed fields
OTHERS = lambda fields, me='self': 'forall(lambda o: implies(o != %s, %s))' % (me, ' and '.join('o.%s == old(o.%s)' % (f, f) for f in fields))
SAME = lambda o, fields=FIELDS: ' and '.join('%s.%s == old(%s.%s)' % (o, f, o, f) for f in fields)

# ------------------------------------------------------------------------------------------------ renormalisation steps
_IE_ENS = [QV('self') + ' == old(%s)' % QV('self'), 'pow2p(self.p)',
           'implies(ne <= old(self.e), self.e == old(self.e) and self.p == old(self.p))', 'implies(ne > old(self.e), self.e == ne)',
           OTHERS(('e', 'p'))]
hfunc(H, 'FPNum.increase_exponent', ['self', 'ne'], props=('C12',), axioms=AX('P1', 'P2', 'V1'),
      requires=['pow2p(self.p)'], modifies=['f:e', 'f:p'],
      invariants={0: 'pow2p(self.p) and %s == old(%s) and self.e >= old(self.e) and (self.e <= ne or self.e == old(self.e)) and '
                     'implies(self.e == old(self.e), self.p == old(self.p)) and %s' % (QV('self'), QV('self'), OTHERS(('e', 'p')))},
      ensures=_IE_ENS)
callee('m:increase_exponent', args=['ne'], requires=['pow2p(self.p)'], modifies=['f:e', 'f:p'], ensures=_IE_ENS)

_IP_ENS = [QV('self') + ' == old(%s)' % QV('self'), 'pow2p(self.p)',
           'implies(np <= old(self.p), self.p == old(self.p) and self.m == old(self.m))', 'implies(np > old(self.p), self.p == np)',
           'implies(old(self.m) >= 0, self.m >= 0)', OTHERS(('m', 'p'))]
hfunc(H, 'FPNum.increase_precision', ['self', 'np'], props=('C12',), axioms=AX('P1', 'P2', 'P3', 'V2'),
      requires=['pow2p(self.p)', 'pow2p(np)'], modifies=['f:m', 'f:p'],
      invariants={0: 'pow2p(self.p) and %s == old(%s) and self.p >= old(self.p) and (self.p <= np or self.p == old(self.p)) and '
                     'implies(self.p == old(self.p), self.m == old(self.m)) and implies(old(self.m) >= 0, self.m >= 0) and %s'
                     % (QV('self'), QV('self'), OTHERS(('m', 'p')))},
      ensures=_IP_ENS)
callee('m:increase_precision', args=['np'], requires=['pow2p(self.p)', 'pow2p(np)'], modifies=['f:m', 'f:p'], ensures=_IP_ENS)

_SS_ENS = ['self.s == s and self.e == e and self.m == m and self.p == p',
           'implies(p != 0, self.infinity == old(self.infinity) and self.nan == old(self.nan))',
           'implies(p == 0 and m == 0, self.infinity and self.nan == old(self.nan))',
           'implies(p == 0 and m != 0, self.nan and self.infinity == old(self.infinity))',
           OTHERS(('s', 'e', 'm', 'p', 'infinity', 'nan'))]
hfunc(H, 'FPNum.set_semp', ['self', 's', 'e', 'm', 'p'], props=('C12',),
      modifies=['f:s', 'f:e', 'f:m', 'f:p', 'f:infinity', 'f:nan'], ensures=_SS_ENS)
callee('m:set_semp', args=['s', 'e', 'm', 'p'], modifies=['f:s', 'f:e', 'f:m', 'f:p', 'f:infinity', 'f:nan'], ensures=_SS_ENS)

_AS_REQ = ['self.p == 0 or (pow2p(self.p) and self.m >= 0)']
_AS_ENS = [QV('self') + ' == old(%s)' % QV('self'),
           'implies(old(self.p) == 0, self.e == old(self.e) and self.m == old(self.m) and self.p == 0)',
           'implies(old(self.p) != 0, pow2p(self.p) and self.m >= 0)',
           # the normal form: mantissa in [p, 2p) unless the number is zero
           'implies(old(self.p) != 0, self.m == 0 or (self.p <= self.m and self.m < 2 * self.p))',
           OTHERS(('e', 'm', 'p'))]
_AS_COMMON = 'pow2p(self.p) and self.m >= 0 and %s == old(%s) and %s' % (QV('self'), QV('self'), OTHERS(('e', 'm', 'p')))
hfunc(H, 'FPNum.adjust_semp', ['self'], props=('C12',), numeric_int=True, axioms=AX('P1', 'P2', 'P4', 'V1', 'V2', 'V3'),
      requires=_AS_REQ, modifies=['f:e', 'f:m', 'f:p'],
      invariants={0: _AS_COMMON, 1: _AS_COMMON + ' and p2 == 2 * self.p and self.p <= self.m', 2: _AS_COMMON + ' and self.m < 2 * self.p'},
      ensures=_AS_ENS)
callee('m:adjust_semp', args=[], requires=_AS_REQ, modifies=['f:e', 'f:m', 'f:p'], ensures=_AS_ENS)

# ------------------------------------------------------------------------------------------------ construction
# FPNum(s, e, m, p): the number s * 2**e * m / p in normal form (p == 0 marks infinity / NaN); FPNum(): blank
def _init4(a):
    return ['implies(%s != 0, %s == val(%s, %s, %s, %s) and pow2p(self.p) and self.m >= 0 and self.s == %s and not self.nan and not self.infinity)' % (a[3], QV('self'), a[0], a[1], a[2], a[3], a[0]),
            'implies(%s != 0, self.m == 0 or (self.p <= self.m and self.m < 2 * self.p))' % a[3],
            'implies(%s == 0, self.s == %s and self.e == %s and self.m == %s and self.p == 0)' % (a[3], a[0], a[1], a[2]),
            'implies(%s == 0 and %s == 0, self.infinity and not self.nan)' % (a[3], a[2]),
            'implies(%s == 0 and %s != 0, self.nan and not self.infinity)' % (a[3], a[2]),
            'not self.inexact', OTHERS(FIELDS)]
_I4_REQ = lambda a: ['%s == 0 or (pow2p(%s) and %s >= 0)' % (a[3], a[3], a[2])]
_MOD_ALL = ['f:' + f for f in FIELDS]
_A4 = ['args0', 'args1', 'args2', 'args3']
hfunc(H, 'FPNum.__init__', ['self'], key='FPNum.__init__/4', oid_suffix='/4', varargs=4, props=('C12',),
      uses=['m:set_semp', 'm:adjust_semp', 'm:convert_float_to_semp', 'm:from_ieee754_hp', 'm:from_ieee754_sp', 'm:from_ieee754_dp', 'm:adjust_sem'],
      requires=_I4_REQ(_A4), modifies=_MOD_ALL, ensures=_init4(_A4))
_B4 = ['a0', 'a1', 'a2', 'a3']
callee('new:FPNum/4', args=_B4, requires=_I4_REQ(_B4), modifies=_MOD_ALL, ensures=_init4(_B4))
_I0 = ['not self.inexact and not self.infinity and not self.nan', OTHERS(('inexact', 'infinity', 'nan'))]
hfunc(H, 'FPNum.__init__', ['self'], key='FPNum.__init__/0', oid_suffix='/0', varargs=0, props=('C12',),
      uses=['m:set_semp', 'm:adjust_semp', 'm:convert_float_to_semp', 'm:from_ieee754_hp', 'm:from_ieee754_sp', 'm:from_ieee754_dp', 'm:adjust_sem'],
      modifies=['f:inexact', 'f:infinity', 'f:nan'], ensures=_I0)
callee('new:FPNum/0', args=[], modifies=['f:inexact', 'f:infinity', 'f:nan'], ensures=_I0)

# ------------------------------------------------------------------------------------------------ arithmetic and order
# ghost o.__alloc: the object exists.  A call allocates, so: whatever existed before is unchanged, and the result is new.
_MOD_NEW = _MOD_ALL + ['f:#alloc']
_KEPT = ['forall(lambda o: implies(old(o.__alloc), o.__alloc and %s))' % ' and '.join('o.%s == old(o.%s)' % (f, f) for f in FIELDS)]
_NEW = ['not old(result.__alloc) and result.__alloc']
_EXIST = lambda *os: ['%s.__alloc' % o for o in os]
_COPY_ENS = [' and '.join('result.%s == old(self.%s)' % (f, f) for f in FIELDS if f != 'inexact') + ' and result.inexact == old(self.inexact)'] + _NEW + _KEPT
hfunc(H, 'FPNum.copy', ['self'], props=('C12',), refs=['self'], uses=['new:FPNum/0', 'm:set_semp'],
      requires=_EXIST('self'), modifies=_MOD_NEW, ensures=_COPY_ENS)
callee('m:copy', args=[], requires=_EXIST('self'), modifies=_MOD_NEW, returns=True, ensures=_COPY_ENS)

_USES = ['new:FPNum/4', 'new:FPNum/0', 'm:increase_exponent', 'm:increase_precision', 'm:copy']
_ADD_REQ = lambda b: [FINITE('self'), FINITE(b)] + _EXIST('self', b)
_ADD_ENS = lambda b: [QV('result') + ' == qadd(old(%s), old(%s))' % (QV('self'), QV(b)), FINITE('result')] + _NEW + _KEPT
hfunc(H, 'FPNum.add', ['self', 'bref'], props=('C12',), refs=['self', 'bref'], uses=_USES,
      axioms=AX('P1', 'N1', 'A1'), axiom_sets=[AX('P1')], cases=['self.s == 1', 'bref.s == 1'], timeout=60,
      requires=_ADD_REQ('bref'), modifies=_MOD_NEW,
      # the sum of finite numbers is computed exactly, as a rational; the operands (and every other existing object) are untouched
      ensures=_ADD_ENS('bref'))
callee('m:add', args=['bref'], requires=_ADD_REQ('bref'), modifies=_MOD_NEW, returns=True, ensures=_ADD_ENS('bref'))

hfunc(H, 'FPNum.sub', ['self', 'bref'], props=('C12',), refs=['self', 'bref'], uses=_USES + ['m:add'],
      axioms=AX('P1', 'G1', 'S1'), axiom_sets=[AX('P1')], timeout=60,
      requires=_ADD_REQ('bref'), modifies=_MOD_NEW,
      ensures=[QV('result') + ' == qsub(old(%s), old(%s))' % (QV('self'), QV('bref')), FINITE('result')] + _NEW + _KEPT)

hfunc(H, 'FPNum.mul', ['self', 'b'], props=('C12',), refs=['self', 'b'], uses=_USES,
      axioms=AX('P1', 'P5', 'M1'), axiom_sets=[AX('P1', 'P5')], timeout=60, opaque_mul=True,
      requires=_ADD_REQ('b'), modifies=_MOD_NEW,
      ensures=[QV('result') + ' == qmul(old(%s), old(%s))' % (QV('self'), QV('b')), FINITE('result')] + _NEW + _KEPT)

hfunc(H, 'FPNum.neg', ['self'], props=('C12',), refs=['self'], uses=_USES, axioms=AX('P1', 'G1'), axiom_sets=[AX('P1')],
      requires=[FINITE('self')] + _EXIST('self'), modifies=_MOD_NEW,
      ensures=[QV('result') + ' == qneg(old(%s))' % QV('self'), FINITE('result')] + _NEW + _KEPT)

hfunc(H, 'FPNum.compare', ['self', 'bref'], props=('C12',), refs=['self', 'bref'], uses=_USES,
      axioms=AX('P1', 'N1', 'C1'), axiom_sets=[AX('P1')], cases=['self.s == 1', 'bref.s == 1'], timeout=60,
      requires=_ADD_REQ('bref'), modifies=_MOD_NEW,
      # the order of the denoted rationals: -1 / 0 / 1
      ensures=['result == qcmp(old(%s), old(%s))' % (QV('self'), QV('bref'))] + _KEPT)


# ------------------------------------------------------------------------------------------------ from IEEE-754 bit patterns
# The unpackers are proved in the scalar mode (contracts/helpers2.py: field formulas); here they are used through that contract.
def _from(fmt, ew, mw, bias, K):
    top = (1 << ew) - 1; P = 1 << mw
    callee('m:unpack_ieee754_%s_parts' % fmt, args=['v'], returns=3,
           ensures=['result0 == (v >> %d) & 1' % (ew + mw), 'result1 == (v >> %d) & %d' % (mw, top), 'result2 == v & %d' % (P - 1),
                    '0 <= result0 and result0 <= 1 and 0 <= result1 and result1 <= %d and 0 <= result2 and result2 < %d' % (top, P)])
    def ens(v):
        E = '((%s >> %d) & %d)' % (v, mw, top); M = '(%s & %d)' % (v, P - 1); S = '(1 if ((%s >> %d) & 1) == 0 else -1)' % (v, ew + mw)
        return [  # a finite pattern denotes (-1)**s * 2**(e - bias) * (1 + m / 2**mw), a subnormal one (-1)**s * 2**(1 - bias) * m / 2**mw
            'implies(%s != %d and %s != 0, %s == val(%s, %s - %d, %d + %s, %d))' % (E, top, E, QV('self'), S, E, bias, P, M, P),
            'implies(%s == 0, %s == val(%s, %d, %s, %d))' % (E, QV('self'), S, 1 - bias, M, P),
            'implies(%s != %d, %s)' % (E, top, FINITE('self')),
            # all-ones exponent: infinity (zero mantissa) or NaN
            'implies(%s == %d and %s == 0, self.infinity and self.s == %s)' % (E, top, M, S),
            'implies(%s == %d and %s != 0, self.nan)' % (E, top, M)]
    req = lambda v: ['0 <= %s and %s < %d' % (v, v, 1 << (1 + ew + mw))]
    mod = ['f:s', 'f:e', 'f:m', 'f:p', 'f:infinity', 'f:nan']
    hfunc(H, 'FPNum.from_ieee754_%s' % fmt, ['self', 'v'], props=('C12',), numeric_int=True,
          uses=['m:unpack_ieee754_%s_parts' % fmt, 'm:set_semp', 'm:adjust_semp'], axioms=AX('P1', K),
          requires=req('v') + ['not self.nan and not self.infinity'], modifies=mod,
          ensures=ens('v') + [OTHERS(('s', 'e', 'm', 'p', 'infinity', 'nan'))])
    callee('m:from_ieee754_%s' % fmt, args=['v'], requires=req('v') + ['not self.nan and not self.infinity'], modifies=mod,
           ensures=ens('v') + [OTHERS(('s', 'e', 'm', 'p', 'infinity', 'nan'))])
    # FPNum(v, '<fmt>')
    hfunc(H, 'FPNum.__init__', ['self'], key='FPNum.__init__/2%s' % fmt, oid_suffix='/2%s' % fmt, varargs=2, props=('C12',),
          uses=['m:set_semp', 'm:adjust_semp', 'm:convert_float_to_semp', 'm:from_ieee754_hp', 'm:from_ieee754_sp', 'm:from_ieee754_dp', 'm:adjust_sem'],
          requires=req('args0') + ["args1 == '%s'" % fmt], modifies=_MOD_ALL,
          ensures=ens('args0') + ['not self.inexact', OTHERS(FIELDS)])


_from('hp', 5, 10, 15, 'K10'); _from('sp', 8, 23, 127, 'K23'); _from('dp', 11, 52, 1023, 'K52')


# ------------------------------------------------------------------------------------------------ FixedPoint (raw encodings)
_FX = ('sw', 'iw', 'fw', 'v')
_FXW = lambda o: '(%s.sw + %s.iw + %s.fw)' % (o, o, o)
_FMT_OK = lambda sw, iw, fw: '%s >= 0 and %s >= 1 and %s >= 0' % (sw, iw, fw)      # a zero integer width is refused by the constructor itself (negative shift)
_FX_MOD = ['f:' + f for f in _FX]
_ITF_REQ = [_FMT_OK('self.sw', 'self.iw', 'self.fw'), '0 <= v and v <= (1 << (self.iw - 1))']
_ITF_ENS = ['self.v == (v << self.fw) %% (1 << %s)' % _FXW('self'), OTHERS(('v',))]
hfunc(H, 'FixedPoint.intToFixedPoint', ['self', 'v'], props=('C12',), uf_mod=True, requires=_ITF_REQ, modifies=['f:v'], ensures=_ITF_ENS)
callee('m:intToFixedPoint', args=['v'], requires=_ITF_REQ, modifies=['f:v'], ensures=_ITF_ENS)
def _fx_init(a):
    return ['self.sw == %s and self.iw == %s and self.fw == %s' % (a[0], a[1], a[2]),
            'self.v == (%s << %s) %% (1 << (%s + %s + %s))' % (a[3], a[2], a[0], a[1], a[2]), OTHERS(_FX)]
_FXI_REQ = lambda a: [_FMT_OK(a[0], a[1], a[2]), '0 <= %s and %s <= (1 << (%s - 1))' % (a[3], a[3], a[1])]
hfunc(H, 'FixedPoint.__init__', ['self', 'sign_bit', 'int_bits', 'frac_bits', 'v'], props=('C12',), numeric_int=True, uf_mod=True,
      uses=['m:intToFixedPoint', 'm:floatToFixedPoint'], requires=_FXI_REQ(['sign_bit', 'int_bits', 'frac_bits', 'v']), modifies=_FX_MOD,
      ensures=_fx_init(['sign_bit', 'int_bits', 'frac_bits', 'v']))
callee('new:FixedPoint/4', args=_B4, requires=_FXI_REQ(_B4), modifies=_FX_MOD, ensures=_fx_init(_B4))
_FX_KEPT = ['forall(lambda o: implies(old(o.__alloc), o.__alloc and %s))' % ' and '.join('o.%s == old(o.%s)' % (f, f) for f in _FX)]
for _name, _op in (('add', '+'), ('sub', '-')):
    hfunc(H, 'FixedPoint.%s' % _name, ['self', 'b'], props=('C12',), refs=['self', 'b'], uses=['new:FixedPoint/4'], uf_mod=True,
          requires=['isinstance(b, FixedPoint)', _FMT_OK('self.sw', 'self.iw', 'self.fw'), 'self.__alloc and b.__alloc'],
          modifies=_FX_MOD + ['f:#alloc'],
          # the raw encoding of the result is the sum / difference of the raw encodings modulo 2**w, in the format of self
          ensures=['result.v == (old(self.v) %s old(b.v)) %% (1 << old(%s))' % (_op, _FXW('self')),
                   'result.sw == old(self.sw) and result.iw == old(self.iw) and result.fw == old(self.fw)'] + _NEW + _FX_KEPT)

# FixedPoint.mult: the raw encoding of the result is the product of the two sign-extended raw encodings, shifted down by the
# fraction width and reduced modulo 2**w.  `sxt(v, w, nw)` is the abstract result of helper.signExtend (a function of its
# arguments; the function itself is proved in scalar mode against the two's complement spec, contracts/helpers.py), and the
# product is an opaque multiplication: the proof shows which operands reach it, not facts of non-linear arithmetic.
callee('f:signExtend', args=['v', 'w', 'nw'], requires=['w >= 1', 'nw >= w'], returns=True, ensures=['result == sxt(v, w, nw)'])
hfunc(H, 'FixedPoint.mult', ['self', 'b'], props=('C12',), refs=['self', 'b'], uses=['new:FixedPoint/4', 'f:signExtend'], uf_mod=True, opaque_mul=True,
      requires=['isinstance(b, FixedPoint)', _FMT_OK('self.sw', 'self.iw', 'self.fw'), 'self.__alloc and b.__alloc'],
      modifies=_FX_MOD + ['f:#alloc'],
      ensures=['result.v == ((sxt(old(self.v), old(%s), old(%s) * 2) * sxt(old(b.v), old(%s), old(%s) * 2)) >> old(self.fw)) %% (1 << old(%s))'
               % ((_FXW('self'),) * 5),
               'result.sw == old(self.sw) and result.iw == old(self.iw) and result.fw == old(self.fw)'] + _NEW + _FX_KEPT)

# FixedPoint.fromRawValue (static): a new object of the given format whose raw encoding is v, nothing else touched
hfunc(H, 'FixedPoint.fromRawValue', ['sw', 'iw', 'fw', 'v'], props=('C12',), refs=[], uses=['new:FixedPoint/4'], uf_mod=True,
      requires=[_FMT_OK('sw', 'iw', 'fw')], modifies=_FX_MOD + ['f:#alloc'],
      ensures=['result.v == v', 'result.sw == sw and result.iw == iw and result.fw == fw'] + _NEW + _FX_KEPT)
