"""Heap-mode contracts for the netlist representation and simulator kernel (py4hw/base.py, simulation.py).
Vocabulary: attribute maps are read with ordinary attribute syntax on references (w.source, p._wires[...]);
`old(e)` is the pre-state; `forall(lambda x: ...)`; dict membership `k in d`, dict read `d[k]`.
Exceptional postconditions say what must be unchanged when the call raises (C11: "the earlier driver, child or
wire stays in place")."""
from pvc.heapverify import hfunc, callee

B = 'py4hw/base.py'
SIMF = 'py4hw/simulation.py'

# ------------------------------------------------------------------------------------------------- C11
# Logic.appendWire(wire): registers the wire under its name, or raises leaving the table untouched
hfunc(B, 'Logic.appendWire', ['self', 'wire'], props=('C11',),
      modifies=['has:_wires', 'val:_wires'],
      raises_when='wire.name in self._wires',
      raises_ensures=['forall(lambda o, k: (k in o._wires) == old(k in o._wires))',
                      'forall(lambda o, k: implies(k in o._wires, o._wires[k] == old(o._wires[k])))'],
      ensures=['wire.name in self._wires', 'self._wires[wire.name] == wire',
               'forall(lambda o, k: implies(not (o == self and k == wire.name), (k in o._wires) == old(k in o._wires)))',
               'forall(lambda o, k: implies(not (o == self and k == wire.name) and (k in o._wires), o._wires[k] == old(o._wires[k])))'])

callee('m:appendWire', args=['wire'], modifies=['has:_wires', 'val:_wires'], raises='wire.name in self._wires',
       ensures=['wire.name in self._wires', 'self._wires[wire.name] == wire',
                'forall(lambda o, k: implies(not (o == self and k == wire.name), (k in o._wires) == old(k in o._wires)))',
                'forall(lambda o, k: implies(not (o == self and k == wire.name) and (k in o._wires), o._wires[k] == old(o._wires[k])))'])

# Wire.setSource: an ordinary wire never gets a second driver; the earlier driver stays
_SRC_UNCHANGED = 'forall(lambda w: w.source == old(w.source))'
hfunc(B, 'Wire.setSource', ['self', 'source'], props=('C11',), uses=['m:getFullPath'],
      modifies=['f:source'],
      raises_when='self.source != None', raises_ensures=[_SRC_UNCHANGED],
      ensures=['self.source == source', 'forall(lambda w: implies(w != self, w.source == old(w.source)))'])
callee('m:getFullPath', args=[], returns=True)
callee('m:setSource', args=['source'], modifies=['f:source'], raises='self.source != None',
       ensures=['self.source == source', 'forall(lambda w: implies(w != self, w.source == old(w.source)))'])

hfunc(B, 'Wire.addSource', ['self', 'source'], props=('C11',), uses=['m:setSource'],
      modifies=['f:source'],
      raises_when='self.source != None', raises_ensures=[_SRC_UNCHANGED],
      ensures=['self.source == source', 'forall(lambda w: implies(w != self, w.source == old(w.source)))'])

# renaming / re-parenting: on a name clash the call raises and BOTH tables and the wire are as before
_TABLES_UNCHANGED = ['forall(lambda o, k: (k in o._wires) == old(k in o._wires))',
                     'forall(lambda o, k: implies(k in o._wires, o._wires[k] == old(o._wires[k])))',
                     'forall(lambda w: w.name == old(w.name) and w.parent == old(w.parent))']
_REG = 'self.name in self.parent._wires and self.parent._wires[self.name] == self'     # INV_net for this wire
hfunc(B, 'Wire.rename', ['self', 'newname'], props=('C11',), uses=['m:appendWire'], requires=[_REG],
      modifies=['has:_wires', 'val:_wires', 'f:name'],
      raises_when='newname != self.name and newname in self.parent._wires', raises_ensures=_TABLES_UNCHANGED,
      ensures=['self.name == newname', 'newname in self.parent._wires', 'self.parent._wires[newname] == self',
               'implies(old(self.name) != newname, not (old(self.name) in self.parent._wires))'])
hfunc(B, 'Wire.reparent', ['self', 'newparent'], props=('C11',), uses=['m:appendWire'], requires=[_REG],
      modifies=['has:_wires', 'val:_wires', 'f:parent'],
      raises_when='newparent != self.parent and self.name in newparent._wires', raises_ensures=_TABLES_UNCHANGED,
      ensures=['self.parent == newparent', 'self.name in newparent._wires', 'newparent._wires[self.name] == self',
               'implies(old(self.parent) != newparent, not (self.name in old(self.parent)._wires))'])
hfunc(B, 'Wire.reparentAndRename', ['self', 'newparent', 'newname'], props=('C11',), uses=['m:appendWire'], requires=[_REG],
      modifies=['has:_wires', 'val:_wires', 'f:parent', 'f:name'],
      raises_when='not (newparent == self.parent and newname == self.name) and newname in newparent._wires', raises_ensures=_TABLES_UNCHANGED,
      ensures=['self.parent == newparent and self.name == newname', 'newname in newparent._wires', 'newparent._wires[newname] == self'])

# Logic.__init__: a parent never ends up with two children of one name; the earlier child stays
hfunc(B, 'Logic.__init__', ['self', 'parent', 'instanceName'], props=('C11',), uses=['m:getFullPath'],
      modifies=['f:parent', 'f:name', 'has:children', 'val:children', 'len:inPorts', 'len:outPorts', 'len:inOutPorts', 'len:sources', 'len:sinks',
                'f:clockDriver', 'has:_wires'],
      raises_when='parent != None and (not isinstance(parent, Logic) or instanceName in parent.children)',
      raises_ensures=['forall(lambda o, k: implies(o != self, (k in o.children) == old(k in o.children)))',
                      'forall(lambda o, k: implies(o != self and (k in o.children), o.children[k] == old(o.children[k])))'],
      requires=['self != parent'],
      ensures=['implies(parent != None, instanceName in parent.children and parent.children[instanceName] == self)',
               'forall(lambda o, k: implies(o != self and not (o == parent and k == instanceName), (k in o.children) == old(k in o.children)))',
               'forall(lambda k: not (k in self.children))', 'forall(lambda k: not (k in self._wires))',
               'len(self.inPorts) == 0 and len(self.outPorts) == 0',
               'self.parent == parent and self.name == instanceName and self.clockDriver == None'])

# Wire.__init__: registered with its parent, no driver yet; a name clash raises and leaves the parent's table alone
hfunc(B, 'Wire.__init__', ['self', 'parent', 'name', 'width'], props=('C11', 'C06'), uses=['m:appendWire'],
      requires=['isinstance(name, str)', 'isinstance(width, int)'],
      modifies=['f:parent', 'f:name', 'f:width', 'f:value', 'f:source', 'len:sinks', 'has:_wires', 'val:_wires'],
      raises_when='name in parent._wires',
      raises_ensures=['forall(lambda o, k: (k in o._wires) == old(k in o._wires))',
                      'forall(lambda o, k: implies(k in o._wires, o._wires[k] == old(o._wires[k])))'],
      ensures=['self.value == 0 and self.width == width and self.source == None and len(self.sinks) == 0',
               'name in parent._wires and parent._wires[name] == self',
               'forall(lambda w: implies(w != self, w.source == old(w.source) and w.value == old(w.value)))'])

# ports: an OutPort of a primitive becomes the wire's driver (raising if there is one already, old driver kept)
callee('m:isPrimitive', args=[], returns=True, ensures=['result == 0 or result == 1'])
callee('m:addSource', args=['source'], modifies=['f:source'], raises='self.source != None',
       ensures=['self.source == source', 'forall(lambda w: implies(w != self, w.source == old(w.source)))'])
callee('m:addSink', args=['sink'], modifies=['el:sinks', 'len:sinks'])
hfunc(B, 'OutPort.__init__', ['self', 'parent', 'name', 'wire'], props=('C11',), uses=['m:isPrimitive', 'm:addSource'],
      modifies=['f:name', 'f:parent', 'f:wire', 'f:source'],
      raises_only_when='wire.source != None', raises_ensures=[_SRC_UNCHANGED],
      ensures=['self.wire == wire and self.parent == parent',
               'forall(lambda w: implies(w != wire, w.source == old(w.source)))',
               'wire.source == self or wire.source == old(wire.source)'])
hfunc(B, 'InPort.__init__', ['self', 'parent', 'name', 'wire'], props=('C11',), uses=['m:isPrimitive', 'm:addSink'],
      modifies=['f:name', 'f:parent', 'f:wire', 'el:sinks', 'len:sinks'],
      ensures=['self.wire == wire and self.parent == parent', _SRC_UNCHANGED])
