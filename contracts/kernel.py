"""Heap-mode contracts for the netlist representation and simulator kernel (py4hw/base.py, simulation.py).
Vocabulary: attribute maps are read with ordinary attribute syntax on references (w.source, p._wires[...]);
`old(e)` is the pre-state; `forall(lambda x: ...)`; dict membership `k in d`, dict read `d[k]`.
Exceptional postconditions say what must be unchanged when the call raises (C11: "the earlier driver, child or
wire stays in place")."""
from pvc.heapverify import hfunc, callee

B = 'py4hw/base.py'
SIMF = 'py4hw/simulation.py'

# ------------------------------------------------------------------------------------------------- C11
# Logic.appendWire(wire): registers the wire under its name, or raises leaving the table untouched
hfunc(B, 'Logic.appendWire', ['self', 'wire'], props=('C11',),
      modifies=['has:_wires', 'val:_wires'],
      raises_when='wire.name in self._wires',
      raises_ensures=['forall(lambda o, k: (k in o._wires) == old(k in o._wires))',
                      'forall(lambda o, k: implies(k in o._wires, o._wires[k] == old(o._wires[k])))'],
      ensures=['wire.name in self._wires', 'self._wires[wire.name] == wire',
               'forall(lambda o, k: implies(not (o == self and k == wire.name), (k in o._wires) == old(k in o._wires)))',
               'forall(lambda o, k: implies(not (o == self and k == wire.name) and (k in o._wires), o._wires[k] == old(o._wires[k])))'])

callee('m:appendWire', args=['wire'], modifies=['has:_wires', 'val:_wires'], raises='wire.name in self._wires',
       ensures=['wire.name in self._wires', 'self._wires[wire.name] == wire',
                'forall(lambda o, k: implies(not (o == self and k == wire.name), (k in o._wires) == old(k in o._wires)))',
                'forall(lambda o, k: implies(not (o == self and k == wire.name) and (k in o._wires), o._wires[k] == old(o._wires[k])))'])

# Wire.setSource: an ordinary wire never gets a second driver; the earlier driver stays
_SRC_UNCHANGED = 'forall(lambda w: w.source == old(w.source))'
hfunc(B, 'Wire.setSource', ['self', 'source'], props=('C11',), uses=['m:getFullPath'],
      modifies=['f:source'],
      raises_when='self.source != None', raises_ensures=[_SRC_UNCHANGED],
      ensures=['self.source == source', 'forall(lambda w: implies(w != self, w.source == old(w.source)))'])
callee('m:getFullPath', args=[], returns=True)
callee('m:setSource', args=['source'], modifies=['f:source'], raises='self.source != None',
       ensures=['self.source == source', 'forall(lambda w: implies(w != self, w.source == old(w.source)))'])

hfunc(B, 'Wire.addSource', ['self', 'source'], props=('C11',), uses=['m:setSource'],
      modifies=['f:source'],
      raises_when='self.source != None', raises_ensures=[_SRC_UNCHANGED],
      ensures=['self.source == source', 'forall(lambda w: implies(w != self, w.source == old(w.source)))'])

# renaming / re-parenting: on a name clash the call raises and BOTH tables and the wire are as before
_TABLES_UNCHANGED = ['forall(lambda o, k: (k in o._wires) == old(k in o._wires))',
                     'forall(lambda o, k: implies(k in o._wires, o._wires[k] == old(o._wires[k])))',
                     'forall(lambda w: w.name == old(w.name) and w.parent == old(w.parent))']
_REG = 'self.name in self.parent._wires and self.parent._wires[self.name] == self'     # INV_net for this wire
hfunc(B, 'Wire.rename', ['self', 'newname'], props=('C11',), uses=['m:appendWire'], requires=[_REG],
      modifies=['has:_wires', 'val:_wires', 'f:name'],
      raises_when='newname != self.name and newname in self.parent._wires', raises_ensures=_TABLES_UNCHANGED,
      ensures=['self.name == newname', 'newname in self.parent._wires', 'self.parent._wires[newname] == self',
               'implies(old(self.name) != newname, not (old(self.name) in self.parent._wires))'])
hfunc(B, 'Wire.reparent', ['self', 'newparent'], props=('C11',), uses=['m:appendWire'], requires=[_REG],
      modifies=['has:_wires', 'val:_wires', 'f:parent'],
      raises_when='newparent != self.parent and self.name in newparent._wires', raises_ensures=_TABLES_UNCHANGED,
      ensures=['self.parent == newparent', 'self.name in newparent._wires', 'newparent._wires[self.name] == self',
               'implies(old(self.parent) != newparent, not (self.name in old(self.parent)._wires))'])
hfunc(B, 'Wire.reparentAndRename', ['self', 'newparent', 'newname'], props=('C11',), uses=['m:appendWire'], requires=[_REG],
      modifies=['has:_wires', 'val:_wires', 'f:parent', 'f:name'],
      raises_when='not (newparent == self.parent and newname == self.name) and newname in newparent._wires', raises_ensures=_TABLES_UNCHANGED,
      ensures=['self.parent == newparent and self.name == newname', 'newname in newparent._wires', 'newparent._wires[newname] == self'])

# Logic.__init__: a parent never ends up with two children of one name; the earlier child stays
hfunc(B, 'Logic.__init__', ['self', 'parent', 'instanceName'], props=('C11',), uses=['m:getFullPath'],
      modifies=['f:parent', 'f:name', 'has:children', 'val:children', 'len:inPorts', 'len:outPorts', 'len:inOutPorts', 'len:sources', 'len:sinks',
                'f:clockDriver', 'has:_wires'],
      raises_when='parent != None and (not isinstance(parent, Logic) or instanceName in parent.children)',
      raises_ensures=['forall(lambda o, k: implies(o != self, (k in o.children) == old(k in o.children)))',
                      'forall(lambda o, k: implies(o != self and (k in o.children), o.children[k] == old(o.children[k])))'],
      requires=['self != parent'],
      ensures=['implies(parent != None, instanceName in parent.children and parent.children[instanceName] == self)',
               'forall(lambda o, k: implies(o != self and not (o == parent and k == instanceName), (k in o.children) == old(k in o.children)))',
               'forall(lambda k: not (k in self.children))', 'forall(lambda k: not (k in self._wires))',
               'len(self.inPorts) == 0 and len(self.outPorts) == 0',
               'self.parent == parent and self.name == instanceName and self.clockDriver == None'])

# Wire.__init__: registered with its parent, no driver yet; a name clash raises and leaves the parent's table alone
hfunc(B, 'Wire.__init__', ['self', 'parent', 'name', 'width'], props=('C11', 'C06'), uses=['m:appendWire'],
      requires=['isinstance(name, str)', 'isinstance(width, int)'],
      modifies=['f:parent', 'f:name', 'f:width', 'f:value', 'f:source', 'len:sinks', 'has:_wires', 'val:_wires'],
      raises_when='name in parent._wires',
      raises_ensures=['forall(lambda o, k: (k in o._wires) == old(k in o._wires))',
                      'forall(lambda o, k: implies(k in o._wires, o._wires[k] == old(o._wires[k])))'],
      ensures=['self.value == 0 and self.width == width and self.source == None and len(self.sinks) == 0',
               'name in parent._wires and parent._wires[name] == self',
               'forall(lambda w: implies(w != self, w.source == old(w.source) and w.value == old(w.value)))'])

# ports: an OutPort of a primitive becomes the wire's driver (raising if there is one already, old driver kept)
callee('m:isPrimitive', args=[], returns=True, ensures=['result == 0 or result == 1'])
callee('m:addSource', args=['source'], modifies=['f:source'], raises='self.source != None',
       ensures=['self.source == source', 'forall(lambda w: implies(w != self, w.source == old(w.source)))'])
callee('m:addSink', args=['sink'], modifies=['el:sinks', 'len:sinks'])
callee('m:isPrimitive', args=[], returns=True, ensures=['(result != 0) == primitive(self)'])
_PORT_ENS = ['self.wire == wire and self.parent == parent',
             'forall(lambda w: implies(w != wire, w.source == old(w.source)))',
             'implies(primitive(parent), wire.source == self)', 'implies(not primitive(parent), wire.source == old(wire.source))',
             'forall(lambda o: implies(o != self, o.parent == old(o.parent) and o.wire == old(o.wire)))']
hfunc(B, 'OutPort.__init__', ['self', 'parent', 'name', 'wire'], props=('C11',), uses=['m:isPrimitive', 'm:addSource'],
      modifies=['f:name', 'f:parent', 'f:wire', 'f:source'],
      # the call that would give an (ordinary) wire a second driver raises -- exactly then -- and leaves the first driver in place
      raises_when='primitive(parent) and wire.source != None', raises_ensures=[_SRC_UNCHANGED],
      ensures=_PORT_ENS)
callee('new:OutPort/3', args=['parent', 'name', 'wire'], modifies=['f:name', 'f:parent', 'f:wire', 'f:source'],
       raises='primitive(parent) and wire.source != None', ensures=_PORT_ENS)
# an in/out port of a primitive drives its wire too (stated for an ordinary Wire: Wire.addSource = setSource)
hfunc(B, 'InOutPort.__init__', ['self', 'parent', 'name', 'wire'], props=('C11',), uses=['m:isPrimitive', 'm:addSource', 'm:addSink'],
      modifies=['f:name', 'f:parent', 'f:wire', 'f:source', 'el:sinks', 'len:sinks'],
      raises_when='primitive(parent) and wire.source != None', raises_ensures=[_SRC_UNCHANGED],
      ensures=['self.wire == wire and self.parent == parent',
               'forall(lambda w: implies(w != wire, w.source == old(w.source)))',
               'implies(primitive(parent), wire.source == self)', 'implies(not primitive(parent), wire.source == old(wire.source))'])
hfunc(B, 'InPort.__init__', ['self', 'parent', 'name', 'wire'], props=('C11',), uses=['m:isPrimitive', 'm:addSink'],
      modifies=['f:name', 'f:parent', 'f:wire', 'el:sinks', 'len:sinks'],
      ensures=['self.wire == wire and self.parent == parent', _SRC_UNCHANGED])


# ------------------------------------------------------------------------------------------------- C05 / C10
# abstract callee contracts (L1): what the kernel may assume about any leaf
callee('m:settle', args=[], modifies=['f:value', 'f:#epoch'],
       ensures=['self.value == old(self.next)', 'forall(lambda o: implies(o != self, o.value == old(o.value)))'])

_INP = 'exists(lambda j: 0 <= j and j < old(len(Wire.prepared)) and old(Wire.prepared[j]) == w)'
hfunc(B, 'Wire.settleAll', [], props=('C05',), uses=['m:settle'],
      modifies=['f:value', 'len:Wire.prepared', 'f:#epoch'],
      invariants={0: 'forall(lambda w: implies(exists(lambda j: 0 <= j and j < _i0 and Wire.prepared[j] == w), w.value == w.next)) and '
                     'forall(lambda w: implies(not exists(lambda j: 0 <= j and j < _i0 and Wire.prepared[j] == w), w.value == old(w.value)))'},
      ensures=['len(Wire.prepared) == 0',
               'forall(lambda w: implies(%s, w.value == old(w.next)))' % _INP,
               'forall(lambda w: implies(not %s, w.value == old(w.value)))' % _INP])

# obj.clock(): reads values, never stores one; touches only its own state, the `next` of the wires it drives and
# appends exactly those wires to Wire.prepared.  drv(w) is the leaf driving w (ghost), st its private state (ghost).
callee('m:clock', args=[], modifies=['f:next', 'f:#st', 'el:Wire.prepared', 'len:Wire.prepared'],
       ensures=['forall(lambda w: implies(w.source == None or w.source.parent != self, w.next == old(w.next)))',
                'forall(lambda o: implies(o != self, o.__st == old(o.__st)))',
                'self.__st == Fstate(self, old(self.__st), epoch())',
                'forall(lambda w: implies(w.source != None and w.source.parent == self, w.next == Fnext(self, w, old(self.__st), epoch()) or w.next == old(w.next)))',
                'len(Wire.prepared) >= old(len(Wire.prepared))',
                'forall(lambda j: implies(0 <= j and j < old(len(Wire.prepared)), Wire.prepared[j] == old(Wire.prepared[j])))',
                'forall(lambda j: implies(old(len(Wire.prepared)) <= j and j < len(Wire.prepared), Wire.prepared[j].source != None and Wire.prepared[j].source.parent == self))'])

# membership in a duplicate-free list is written with a ghost index function: o is in L  <=>  L[idx(o)] == o
MEM = lambda lst, owner, o: '(0 <= cidx(%s, %s) and cidx(%s, %s) < len(%s) and %s[cidx(%s, %s)] == %s)' % (owner, o, owner, o, lst, lst, owner, o, o)
MEMI = lambda lst, owner, o, hi: '(0 <= cidx(%s, %s) and cidx(%s, %s) < %s and %s[cidx(%s, %s)] == %s)' % (owner, o, owner, o, hi, lst, owner, o, o)
_CL = 'self.clockables'
_CL_IDX = 'forall(lambda k: implies(0 <= k and k < len(self.clockables), cidx(self, self.clockables[k]) == k))'
_NEWPREP = lambda hi: ('forall(lambda j: implies(old(len(Wire.prepared)) <= j and j < len(Wire.prepared), Wire.prepared[j].source != None and %s))'
                       % MEMI(_CL, 'self', 'Wire.prepared[j].source.parent', hi))
_CLOCKALL_ENS = ['forall(lambda j: implies(0 <= j and j < len(self.clockables), self.clockables[j].__st == Fstate(self.clockables[j], old(self.clockables[j].__st), epoch())))',
                 'forall(lambda o: implies(not %s, o.__st == old(o.__st)))' % MEM(_CL, 'self', 'o'),
                 'forall(lambda w: implies(w.source == None or not %s, w.next == old(w.next)))' % MEM(_CL, 'self', 'w.source.parent'),
                 'forall(lambda j: implies(0 <= j and j < old(len(Wire.prepared)), Wire.prepared[j] == old(Wire.prepared[j])))',
                 'len(Wire.prepared) >= old(len(Wire.prepared))',
                 # every wire newly pending was prepared by (hence is driven by) one of the blocks of this domain
                 _NEWPREP('len(self.clockables)'),
                 'forall(lambda w: w.source == old(w.source))', 'forall(lambda o: o.parent == old(o.parent))']
hfunc(SIMF, 'ClockDriverSimulator.clockAll', ['self'], props=('C05', 'C10'), uses=['m:clock'],
      requires=[_CL_IDX],
      modifies=['f:next', 'f:#st', 'el:Wire.prepared', 'len:Wire.prepared'],
      invariants={0: 'forall(lambda j: implies(0 <= j and j < _i0, self.clockables[j].__st == Fstate(self.clockables[j], old(self.clockables[j].__st), epoch()))) and '
                     'forall(lambda o: implies(not %s, o.__st == old(o.__st))) and '
                     'forall(lambda w: implies(w.source == None or not %s, w.next == old(w.next))) and '
                     'len(Wire.prepared) >= old(len(Wire.prepared)) and '
                     'forall(lambda j: implies(0 <= j and j < old(len(Wire.prepared)), Wire.prepared[j] == old(Wire.prepared[j]))) and '
                     '%s'
                     % (MEMI(_CL, 'self', 'o', '_i0'), MEMI(_CL, 'self', 'w.source.parent', '_i0'), _NEWPREP('_i0'))},
      ensures=_CLOCKALL_ENS)

callee('m:clockAll', args=[], modifies=['f:next', 'f:#st', 'el:Wire.prepared', 'len:Wire.prepared'], requires=[_CL_IDX], ensures=_CLOCKALL_ENS)
callee('m:Wire.settleAll', args=[], modifies=['f:value', 'len:Wire.prepared', 'f:#epoch'],
       ensures=['len(Wire.prepared) == 0',
                'forall(lambda w: implies(%s, w.value == old(w.next)))' % _INP,
                'forall(lambda w: implies(not %s, w.value == old(w.value)))' % _INP])
callee('m:get', args=[], returns=True, ensures=['result == self.value'])
# obj.propagate(): writes only the wires it drives; afterwards its outputs agree with its inputs (ghost flag ok),
# and only blocks that read one of its outputs can lose their ok flag
callee('m:propagate', args=[], modifies=['f:value', 'f:#epoch', 'f:#ok'],
       ensures=['forall(lambda w: implies(w.source == None or w.source.parent != self, w.value == old(w.value)))',
                'implies(not dep(self, self), self.__ok == 1)',
                'forall(lambda o: implies(o != self and not dep(self, o), o.__ok == old(o.__ok)))'])
callee('m:_notifyListeners', args=[], modifies=[])

KEYS = 'self.clockDrivers.__keys'
_EN = lambda d: '(%s.enable == None or old(%s.enable.value) != 0)' % (d, d)
# o is a sequential leaf registered under the driver of its domain
_INL = lambda o: '(dom(%s) in self.clockDrivers and %s)' % (o, MEM('self.clockDrivers[dom(%s)].clockables' % o, 'self.clockDrivers[dom(%s)]' % o, o))
_DONE = lambda o, hi='_i0': '(0 <= kidx(dom(%s)) and kidx(dom(%s)) < %s and %s[kidx(dom(%s))] == dom(%s))' % (o, o, hi, KEYS, o, o)
_STEPPED = lambda o, hi='_i0': '%s and %s and %s' % (_DONE(o, hi), _INL(o), _EN('dom(%s)' % o))
# every pending wire was prepared by a block that has been stepped (C10: a gated-off block prepares nothing)
# (the block is named by a bound variable p: old(...) inside STEPPED must apply to the enable value only, not to the pending list)
_PREP_OK = lambda hi: ('forall(lambda j, p: implies(0 <= j and j < len(Wire.prepared) and (Wire.prepared[j].source == None or p == Wire.prepared[j].source.parent), '
                       'Wire.prepared[j].source != None and (%s)))' % _STEPPED('p', hi))
_INP_ = lambda o: 'exists(lambda k: 0 <= k and k < len(self.propagatables) and self.propagatables[k] == %s)' % o
# the wires driven by a sequential block that was not stepped keep their value across the edge (output-wire clause of C10)
_OUT_KEPT = ('forall(lambda w: implies(w.source != None and not (%s) and not %s, w.value == old(w.value)))'
             % (_STEPPED('w.source.parent', 'len(%s)' % KEYS), _INP_('w.source.parent')))
hfunc(SIMF, 'Simulator._clk_cycle', ['self'], props=('C05', 'C10'),
      uses=['m:clockAll', 'm:Wire.settleAll', 'm:get', 'm:propagate', 'm:_notifyListeners'],
      requires=['forall(lambda j: implies(0 <= j and j < len(%s), %s[j] in self.clockDrivers and kidx(%s[j]) == j))' % (KEYS, KEYS, KEYS),
                'forall(lambda d: implies(d in self.clockDrivers, 0 <= kidx(d) and kidx(d) < len(%s) and %s[kidx(d)] == d))' % (KEYS, KEYS),
                # every leaf listed under a driver belongs to that driver's domain; ghost index of each list
                'forall(lambda d, k: implies(d in self.clockDrivers and 0 <= k and k < len(self.clockDrivers[d].clockables), dom(self.clockDrivers[d].clockables[k]) == d and cidx(self.clockDrivers[d], self.clockDrivers[d].clockables[k]) == k))',
                'forall(lambda d, e: implies(d in self.clockDrivers and e in self.clockDrivers and d != e, self.clockDrivers[d] != self.clockDrivers[e]))',
                'len(Wire.prepared) == 0'],
      modifies=['f:next', 'f:#st', 'el:Wire.prepared', 'len:Wire.prepared', 'f:value', 'f:#epoch', 'f:#ok', 'f:total_clks'],
      invariants={0: 'forall(lambda o: implies(%s, o.__st == Fstate(o, old(o.__st), old(epoch())))) and '
                     'forall(lambda o: implies(not (%s), o.__st == old(o.__st))) and '
                     '%s and forall(lambda w: w.value == old(w.value))'
                     % (_STEPPED('o'), _STEPPED('o'), _PREP_OK('_i0')),
                  1: _OUT_KEPT + ' and len(Wire.prepared) == 0'},
      ensures=['self.total_clks == old(self.total_clks) + 1', 'len(Wire.prepared) == 0',
               # C05: every sequential block of an enabled domain is stepped exactly once on the PRE-edge values (old epoch), whatever the visiting order
               'forall(lambda o: implies(%s and %s and dom(o) in self.clockDrivers, o.__st == Fstate(o, old(o.__st), old(epoch()))))' % (_INL('o'), _EN('dom(o)')),
               # C10: blocks of a domain whose enable read 0 before the edge keep their state; so does everything outside all domains
               'forall(lambda o: implies(not (%s and %s), o.__st == old(o.__st)))' % (_INL('o'), _EN('dom(o)')),
               # C10, outputs: a wire driven by a sequential block that was not stepped (gated-off domain, or outside all domains) carries the same value after the edge
               _OUT_KEPT])


# Simulator.clk(n): n single cycles after one settle; stops early only through stop()
callee('m:propagateAll', args=[], modifies=['f:value', 'f:#epoch', 'f:#ok'])
callee('m:_clk_cycle', args=[], modifies=['f:next', 'f:#st', 'el:Wire.prepared', 'len:Wire.prepared', 'f:value', 'f:#epoch', 'f:#ok', 'f:total_clks'],
       requires=['len(Wire.prepared) == 0'],
       ensures=['self.total_clks == old(self.total_clks) + 1', 'len(Wire.prepared) == 0',
                'forall(lambda o: implies(o != self, o.do_run == old(o.do_run)))', 'self.do_run == old(self.do_run)'])
hfunc(SIMF, 'Simulator.clk', ['self', 'cycles'], props=('C05',), uses=['m:propagateAll', 'm:_clk_cycle'],
      requires=['len(Wire.prepared) == 0', 'cycles >= 0'],
      modifies=['f:next', 'f:#st', 'el:Wire.prepared', 'len:Wire.prepared', 'f:value', 'f:#epoch', 'f:#ok', 'f:total_clks', 'f:do_run'],
      invariants={0: 'self.total_clks == old(self.total_clks) + _i0 and len(Wire.prepared) == 0 and self.do_run == 1'},
      # exactly `cycles` single-cycle steps (no listener calls stop(): do_run is only written by clk itself / stop()), nothing pending afterwards
      ensures=['self.total_clks == old(self.total_clks) + cycles', 'len(Wire.prepared) == 0'])

# getObjectClockDriver: nearest ancestor-or-self that has a clock driver (C10)
callee('f:getObjectClockDriver', args=['obj'], returns=True, raises='nearest(obj) == None',
       ensures=['result == nearest(obj)'])
hfunc(B, 'getObjectClockDriver', ['obj'], props=('C10',), uses=['f:getObjectClockDriver'],
      # ghost: depth(o) = distance to the root (termination measure); nearest(o) = the specification, defined by the recursion equations
      requires=['depth(obj) >= 0', 'implies(obj.parent != None, depth(obj.parent) >= 0 and depth(obj.parent) < depth(obj))'],
      axioms=['forall(lambda o: nearest(o) == (o.clockDriver if o.clockDriver != None else (None if o.parent == None else nearest(o.parent))))'],
      raises_when='nearest(obj) == None',
      ensures=['result == nearest(obj)', 'result != None'])


# ------------------------------------------------------------------------------------------------- C04
# dep(u, v): block v reads a wire driven by block u.  sorted(P): no block depends on a later one, none on itself.
_P = 'self.propagatables'
_SORTED = 'forall(lambda a, b: implies(0 <= a and a <= b and b < len(%s), not dep(%s[b], %s[a])))' % (_P, _P, _P)
_DISTINCT = 'forall(lambda k: implies(0 <= k and k < len(%s), pidx(%s[k]) == k))' % (_P, _P)
hfunc(SIMF, 'Simulator.propagateAll', ['self'], props=('C04',), uses=['m:propagate'],
      requires=[_SORTED, _DISTINCT],
      modifies=['f:value', 'f:#epoch', 'f:#ok'],
      invariants={0: 'forall(lambda j: implies(0 <= j and j < _i0, %s[j].__ok == 1))' % _P},
      # every stateless block's outputs agree with the CURRENT values of its inputs: the netlist sits at its fixpoint
      ensures=['forall(lambda j: implies(0 <= j and j < len(%s), %s[j].__ok == 1))' % (_P, _P)])


# findFirstDependentPosition(obj): -1 iff no block of the evaluation list reads an output of obj, else the least
# position of one.  ASSUMED here (bounded stand-in in props/C04.py compares it with an independent computation).
_FFDP = ['(result == -1 and forall(lambda j: implies(0 <= j and j < len(self.propagatables), not dep(obj, self.propagatables[j])))) or '
         '(0 <= result and result < len(self.propagatables) and dep(obj, self.propagatables[result]) and '
         'forall(lambda j: implies(0 <= j and j < result, not dep(obj, self.propagatables[j]))))']
# every propagatable block sits somewhere in the evaluation list (existential form of the `pidx` clause in the requires of
# findFirstDependentPosition below: the two are equivalent by Skolemisation)
_COVER = lambda lst: 'forall(lambda v: implies(propagatable(v), exists(lambda j: 0 <= j and j < len(%s) and %s[j] == v)))' % (lst, lst)
callee('m:findFirstDependentPosition', args=['obj'], returns=True, requires=[_COVER('self.propagatables')], ensures=_FFDP)
# assumed of allLeaves (recursive descent over children, not under contract): every propagatable object is one of the leaves returned
callee('m:allLeaves', args=[], returns='list', ensures=[_COVER('result')])
callee('m:isClockable', args=[], returns=True)
callee('m:isPropagatable', args=[], returns=True, ensures=['(result != 0) == propagatable(self)'])
callee('m:getOrCreateClockDriverSimulator', args=['drv'], returns=True, modifies=['has:clockDrivers', 'val:clockDrivers'])
callee('m:addClockable', args=['obj'], modifies=['el:clockables', 'len:clockables'])
callee('f:getObjectClockDriver!abs', args=['obj'], returns=True)

_STRICT = lambda hi: 'forall(lambda a, b: implies(0 <= a and a < b and b < %s, not dep(self.propagatables[b], self.propagatables[a])))' % hi
# (the contract of Simulator.topologicalSort is stated once, at the end of this file, together with the registration clauses)


# ------------------------------------------------------------------------------------------------- C15
WF = 'py4hw/logic/simulation.py'
callee('m:Waveform.getwire', args=['x'], returns=True, ensures=['result == wireof(x)'])
callee('m:get', args=[], returns=True, ensures=['result == self.value'])
_U = 'self.uniqueWires'
_LIST = lambda j: 'self.data[wireof(%s[%s])]' % (_U, j)
hfunc(WF, 'Waveform.clock', ['self'], props=('C15',), uses=['m:Waveform.getwire', 'm:get'],
      requires=[  # the watch list after de-duplication: distinct wires, each with its own sample list (established by __init__)
          'forall(lambda j: implies(0 <= j and j < len(%s), not isinstance(%s[j], FieldInspector) and not isinstance(%s[j], ValueFormatter)))' % (_U, _U, _U),
          'forall(lambda j: implies(0 <= j and j < len(%s), wireof(%s[j]) in self.data and cidx(self, wireof(%s[j])) == j))' % (_U, _U, _U),
          'forall(lambda i, j: implies(0 <= i and i < j and j < len(%s), %s != %s))' % (_U, _LIST('i'), _LIST('j'))],
      modifies=['el:#items', 'len:#items'],
      invariants={0: 'forall(lambda j: implies(0 <= j and j < _i0, len(items(%s)) == old(len(items(%s))) + 1 and items(%s)[old(len(items(%s)))] == wireof(%s[j]).value)) and '
                     'forall(lambda j: implies(_i0 <= j and j < len(%s), len(items(%s)) == old(len(items(%s))))) and '
                     'forall(lambda j, k: implies(0 <= j and j < len(%s) and 0 <= k and k < old(len(items(%s))), items(%s)[k] == old(items(%s)[k])))'
                     % (_LIST('j'), _LIST('j'), _LIST('j'), _LIST('j'), _U, _U, _LIST('j'), _LIST('j'), _U, _LIST('j'), _LIST('j'), _LIST('j'))},
      # exactly one sample per unique watched wire, equal to the value the wire carries when clock() runs (the pre-edge value, by C05); earlier samples untouched
      ensures=['forall(lambda j: implies(0 <= j and j < len(%s), len(items(%s)) == old(len(items(%s))) + 1 and items(%s)[old(len(items(%s)))] == wireof(%s[j]).value))'
               % (_U, _LIST('j'), _LIST('j'), _LIST('j'), _LIST('j'), _U),
               'forall(lambda j, k: implies(0 <= j and j < len(%s) and 0 <= k and k < old(len(items(%s))), items(%s)[k] == old(items(%s)[k])))' % (_U, _LIST('j'), _LIST('j'), _LIST('j'))])


# ------------------------------------------------------------------------------------------------- C04: findFirstDependentPosition
# realsink(u, p, q): the q-th reader port of the wire on the p-th output port of u
_OP = 'obj.outPorts'
_RS = lambda p, q: '%s[%s].wire.sinks[%s].parent' % (_OP, p, q)
_REAL = lambda p, q, hi: '(0 <= %s and %s < %s and %s[%s].wire != None and 0 <= %s and %s < len(%s[%s].wire.sinks) and propagatable(%s))' % (p, p, hi, _OP, p, q, q, _OP, p, _RS(p, q))
_INS = lambda v: 'exists(lambda k: 0 <= k and k < len(sinks) and sinks[k] == %s)' % v
hfunc(SIMF, 'Simulator.findFirstDependentPosition', ['self', 'obj'], props=('C04',), uses=['m:isPropagatable', 'acc:getSinks'],
      requires=[_DISTINCT,
                # dep(obj, v) is exactly "v is a propagatable block reading a wire driven by an output port of obj"
                'forall(lambda p, q: implies(%s, dep(obj, %s)))' % (_REAL('p', 'q', 'len(obj.outPorts)'), _RS('p', 'q')),
                'forall(lambda v: implies(dep(obj, v), exists(lambda p, q: %s and %s == v)))' % (_REAL('p', 'q', 'len(obj.outPorts)'), _RS('p', 'q')),
                # every propagatable block is in the evaluation list (established by the first loop of topologicalSort)
                'forall(lambda v: implies(propagatable(v), 0 <= pidx(v) and pidx(v) < len(self.propagatables) and self.propagatables[pidx(v)] == v))'],
      modifies=[],
      invariants={
          0: 'len(sinks) >= 0 and forall(lambda k: implies(0 <= k and k < len(sinks), dep(obj, sinks[k]) and propagatable(sinks[k]))) and '
             'forall(lambda p, q: implies(%s, %s))' % (_REAL('p', 'q', '_i0'), _INS(_RS('p', 'q'))),
          1: 'len(sinks) >= 0 and forall(lambda k: implies(0 <= k and k < len(sinks), dep(obj, sinks[k]) and propagatable(sinks[k]))) and '
             'forall(lambda p, q: implies(%s, %s)) and '
             'forall(lambda q: implies(0 <= q and q < _i1 and propagatable(sinkPorts[q].parent), %s))'
             % (_REAL('p', 'q', '_i0'), _INS(_RS('p', 'q')), _INS('sinkPorts[q].parent')),
          2: '0 <= minPos and minPos < len(self.propagatables) and %s and forall(lambda k: implies(0 <= k and k < _i2, minPos <= pidx(sinks[k])))' % _INS('self.propagatables[minPos]')},
      ensures=_FFDP)


# ------------------------------------------------------------------------------------------------- C11: integrity check
DBG = 'py4hw/debug.py'
_REGISTERED = lambda p: ('(exists(lambda j: 0 <= j and j < len(%s.parent.inPorts) and %s.parent.inPorts[j] == %s) or '
                         'exists(lambda j: 0 <= j and j < len(%s.parent.outPorts) and %s.parent.outPorts[j] == %s))' % (p, p, p, p, p, p))
hfunc(DBG, 'checkPort', ['port'], props=('C11',), modifies=[], raises_when='not %s' % _REGISTERED('port'))
callee('f:checkPort', args=['port'], raises='not %s' % _REGISTERED('port'))
callee('f:checkPortParent', args=['port', 'obj'])
callee('f:checkIntegrity', args=['obj'], raises='not integ(obj)')
_CK = 'obj.children.__keys'
# integ(o): every port of o is attached to a driven wire, and every child has integrity (recursion equations of the specification)
_INTEG_DEF = ('forall(lambda o: integ(o) == ('
              'forall(lambda j: implies(0 <= j and j < len(o.inPorts), o.inPorts[j].wire.source != None)) and '
              'forall(lambda j: implies(0 <= j and j < len(o.outPorts), o.outPorts[j].wire.source != None)) and '
              'forall(lambda j: implies(0 <= j and j < len(o.children.__keys), integ(o.children[o.children.__keys[j]])))))')
hfunc(DBG, 'checkIntegrity', ['obj'], props=('C11',),
      uses=['f:checkPort', 'f:checkPortParent', 'f:checkIntegrity', 'acc:getSinks', 'acc:getSource', 'm:getFullPath'],
      axioms=[_INTEG_DEF],
      requires=[  # every driver port is registered with its block (INV of addOut / OutPort.__init__), so checkPort cannot fail
          'forall(lambda w: implies(w.source != None, %s))' % _REGISTERED('w.source'),
          'forall(lambda j: implies(0 <= j and j < len(%s), %s[j] in obj.children))' % (_CK, _CK)],
      modifies=[],
      invariants={0: 'True', 1: 'True',
                  2: 'forall(lambda j: implies(0 <= j and j < _i2, obj.inPorts[j].wire.source != None))',
                  3: 'forall(lambda j: implies(0 <= j and j < len(obj.inPorts), obj.inPorts[j].wire.source != None)) and '
                     'forall(lambda j: implies(0 <= j and j < _i3, obj.outPorts[j].wire.source != None))',
                  4: 'forall(lambda j: implies(0 <= j and j < len(obj.inPorts), obj.inPorts[j].wire.source != None)) and '
                     'forall(lambda j: implies(0 <= j and j < len(obj.outPorts), obj.outPorts[j].wire.source != None)) and '
                     'forall(lambda j: implies(0 <= j and j < _i4, integ(obj.children[%s[j]])))' % _CK},
      # raises exactly when some port in the hierarchy is attached to a wire that no block drives
      raises_when='not integ(obj)')


# ------------------------------------------------------------------------------------------------- C04: getSimulator (re)schedules
# up_to_date(sim): the evaluation list of sim is sorted along dep and holds every propagatable leaf of the current hierarchy.
# topologicalSort establishes it (sortedness proved above; coverage is the assumed part: its first loop appends every
# propagatable leaf that allLeaves returns); getSimulator must return a simulator for which it holds on *every* path,
# also when the simulator already existed and blocks were added since.
_SORTED_R = 'forall(lambda a, b: implies(0 <= a and a < b and b < len(%s.propagatables), not dep(%s.propagatables[b], %s.propagatables[a])))'
_COVER_R = 'forall(lambda v: implies(propagatable(v), exists(lambda j: 0 <= j and j < len(%s.propagatables) and %s.propagatables[j] == v)))'
_UPTODATE = lambda r: [(_SORTED_R % (r, r, r)), (_COVER_R % (r, r))]
_TS_MOD = ['len:propagatables', 'el:propagatables', 'has:clockDrivers', 'val:clockDrivers', 'el:clockables', 'len:clockables', 'f:driver', 'f:#alloc']
callee('m:topologicalSort', args=[], modifies=_TS_MOD, ensures=_UPTODATE('self'))
callee('new:Simulator/1', args=['sys'], requires=['sys.simulator == None'],
       modifies=_TS_MOD + ['f:total_clks', 'f:sys', 'len:listeners', 'f:value', 'f:#epoch', 'f:#ok'],
       ensures=_UPTODATE('self') + ['self.sys == sys'])
hfunc('py4hw/base.py', 'HWSystem.getSimulator', ['self'], props=('C04',), refs=['self'], uses=['new:Simulator/1', 'm:topologicalSort'],
      modifies=_TS_MOD + ['f:total_clks', 'f:sys', 'len:listeners', 'f:value', 'f:#epoch', 'f:#ok', 'f:simulator'],
      ensures=['result == self.simulator and result != None'] + _UPTODATE('result'))


# ------------------------------------------------------------------------------------------------- C15: Waveform.__init__
# The watch list may name a wire directly, through a port, or more than once; the constructor keeps one entry per distinct
# wire, each with its own (new, empty) sample list.  These are the requires of Waveform.clock above (there written with the
# ghost index cidx: a duplicate-free list has an index function, by Skolemisation).
_W = 'items(wires)'
_WOF = lambda x: '(%s if isinstance(%s, Wire) else %s.wire)' % (x, x, x)        # the wire an entry of the watch list stands for
_UU = 'self.uniqueWires'
_WATCHABLE = ('forall(lambda k: implies(0 <= k and k < len(%s), (isinstance(%s[k], Wire) or isinstance(%s[k], InPort) or isinstance(%s[k], OutPort)) and '
              'implies(not isinstance(%s[k], Wire), %s[k].wire != None and isinstance(%s[k].wire, Wire))))' % (_W, _W, _W, _W, _W, _W, _W))
_WF_INV = ('len(%s) >= 0 and '
           # entries are wires, each registered in data with a sample list that exists, is empty and is its own
           'forall(lambda j: implies(0 <= j and j < len(%s), isinstance(%s[j], Wire) and %s[j] in self.data and self.data[%s[j]].__alloc and len(items(self.data[%s[j]])) == 0)) and '
           'forall(lambda i, j: implies(0 <= i and i < j and j < len(%s), %s[i] != %s[j] and self.data[%s[i]] != self.data[%s[j]]))'
           % (_UU, _UU, _UU, _UU, _UU, _UU, _UU, _UU, _UU, _UU, _UU))
_WF_COVER = lambda hi: ('forall(lambda k: implies(0 <= k and k < %s, exists(lambda j: 0 <= j and j < len(%s) and %s[j] == %s)))' % (hi, _UU, _UU, _WOF('%s[k]' % _W)))
callee('m:super.__init__', args=['parent', 'name'], modifies=['f:parent', 'f:name', 'has:children', 'val:children', 'len:#keys:children', 'el:#keys:children', 'len:inPorts', 'len:outPorts', 'len:inOutPorts',
                                                                'len:sources', 'len:sinks', 'f:clockDriver', 'has:_wires', 'val:_wires'])
callee('m:addIn', args=['name', 'wire'], returns=True, modifies=['len:inPorts', 'el:inPorts', 'len:sinks', 'el:sinks', 'f:wire', 'f:parent', 'f:name'],
       # the port it creates is a new object: the wire / parent / name fields of existing objects are untouched
       ensures=['forall(lambda o: implies(old(o.__alloc), o.wire == old(o.wire)))'])
callee('m:getFormat', args=[], returns=True)
callee('m:getWidth', args=[], returns=True)
hfunc(WF, 'Waveform.__init__', ['self', 'parent', 'name', 'wires'], props=('C15',), refs=['self', 'parent', 'wires'], plain_attrs=['wires'], list_attrs=['format'],
      uses=['m:super.__init__', 'm:addIn', 'm:getFormat', 'm:getWidth', 'm:getFullPath'],
      requires=['isinstance(wires, list)', 'len(%s) > 0' % _W, _WATCHABLE, 'self.__alloc and wires.__alloc',
                'forall(lambda k: implies(0 <= k and k < len(%s), %s[k].__alloc))' % (_W, _W)],
      modifies=['f:parent', 'f:name', 'has:children', 'val:children', 'len:#keys:children', 'el:#keys:children', 'len:inPorts', 'el:inPorts', 'len:outPorts', 'len:inOutPorts',
                'len:sources', 'len:sinks', 'el:sinks', 'f:clockDriver', 'has:_wires', 'val:_wires', 'f:wire', 'f:wires', 'len:format', 'el:format', 'has:data', 'val:data',
                'len:uniqueWires', 'el:uniqueWires', 'f:#alloc', 'len:#items'],
      invariants={0: _WF_INV + ' and ' + _WF_COVER('_i0') + ' and self.wires == wires and '
                     'forall(lambda k: implies(0 <= k and k < len(%s), %s[k] == old(%s[k]) and %s[k].wire == old(%s[k].wire))) and len(%s) == old(len(%s)) and '
                     'forall(lambda o: implies(old(o.__alloc), o.__alloc))' % (_W, _W, _W, _W, _W, _W, _W)},
      ensures=[_WF_INV, _WF_COVER('len(%s)' % _W)])

_DK = 'self.data.__keys'
hfunc(WF, 'Waveform.clear', ['self'], props=('C15',), refs=['self'],
      requires=['forall(lambda j: implies(0 <= j and j < len(%s), %s[j] in self.data))' % (_DK, _DK),
                'forall(lambda i, j: implies(0 <= i and i < j and j < len(%s), %s[i] != %s[j]))' % (_DK, _DK, _DK)],
      modifies=['val:data', 'has:data', 'f:#alloc', 'len:#items'],
      invariants={0: 'forall(lambda j: implies(0 <= j and j < _i0, len(items(self.data[%s[j]])) == 0)) and forall(lambda j: implies(0 <= j and j < _i0, self.data[%s[j]].__alloc)) and '
                     'forall(lambda i, j: implies(0 <= i and i < j and j < _i0, self.data[%s[i]] != self.data[%s[j]])) and '
                     'forall(lambda j: implies(_i0 <= j and j < len(%s), self.data[%s[j]] == old(self.data[%s[j]]))) and '
                     'forall(lambda k: (k in self.data) == old(k in self.data)) and forall(lambda o: implies(old(o.__alloc), o.__alloc))'
                     % (_DK, _DK, _DK, _DK, _DK, _DK, _DK)},
      # every record is a new empty list of its own: the next run starts from cycle 0, and the records stay distinct
      ensures=['forall(lambda j: implies(0 <= j and j < len(%s), len(items(self.data[%s[j]])) == 0))' % (_DK, _DK),
               'forall(lambda i, j: implies(0 <= i and i < j and j < len(%s), self.data[%s[i]] != self.data[%s[j]]))' % (_DK, _DK, _DK),
               'forall(lambda k: (k in self.data) == old(k in self.data))'])


# ------------------------------------------------------------------------------------------------- C05 / C10: registration of sequential blocks
_CDS_INIT = ['self.driver == drv and len(self.clockables) == 0', 'forall(lambda o: implies(o != self, o.driver == old(o.driver) and len(o.clockables) == old(len(o.clockables))))',
             'forall(lambda o, j: implies(o != self, o.clockables[j] == old(o.clockables[j])))']
hfunc(SIMF, 'ClockDriverSimulator.__init__', ['self', 'drv'], props=('C05', 'C10'), modifies=['f:driver', 'len:clockables'], ensures=_CDS_INIT[:2])
callee('new:ClockDriverSimulator/1', args=['drv'], modifies=['f:driver', 'len:clockables'], ensures=_CDS_INIT[:2])
_ADDC = ['len(self.clockables) == old(len(self.clockables)) + 1 and self.clockables[old(len(self.clockables))] == obj',
         'forall(lambda j: implies(0 <= j and j < old(len(self.clockables)), self.clockables[j] == old(self.clockables[j])))',
         'forall(lambda o: implies(o != self, len(o.clockables) == old(len(o.clockables))))',
         'forall(lambda o, j: implies(o != self, o.clockables[j] == old(o.clockables[j])))']
hfunc(SIMF, 'ClockDriverSimulator.addClockable', ['self', 'obj'], props=('C05', 'C10'), modifies=['len:clockables', 'el:clockables'], ensures=_ADDC)
_GOC = ['drv in self.clockDrivers and result == self.clockDrivers[drv] and result != None',
        # an existing entry is returned as it is; a missing one is created with an empty list, as a new object
        'implies(old(drv in self.clockDrivers), result == old(self.clockDrivers[drv]) and forall(lambda o: len(o.clockables) == old(len(o.clockables))))',
        'implies(not old(drv in self.clockDrivers), not old(result.__alloc) and len(result.clockables) == 0 and forall(lambda o: implies(o != result, len(o.clockables) == old(len(o.clockables)))))',
        'forall(lambda d: implies(d != drv, (d in self.clockDrivers) == old(d in self.clockDrivers) and implies(d in self.clockDrivers, self.clockDrivers[d] == old(self.clockDrivers[d]))))',
        'forall(lambda o: implies(old(o.__alloc), o.__alloc))', 'result.__alloc',
        'forall(lambda o, j: implies(old(o.__alloc), o.clockables[j] == old(o.clockables[j])))']
hfunc(SIMF, 'Simulator.getOrCreateClockDriverSimulator', ['self', 'drv'], props=('C05', 'C10'), refs=['self', 'drv'], uses=['new:ClockDriverSimulator/1'],
      requires=['forall(lambda d: implies(d in self.clockDrivers, self.clockDrivers[d] != None and self.clockDrivers[d].__alloc))'],
      modifies=['has:clockDrivers', 'val:clockDrivers', 'f:driver', 'len:clockables', 'f:#alloc'], ensures=_GOC)


# topologicalSort, complete contract: sortedness + coverage (as above) + registration of every sequential leaf under the simulator of
# the NEAREST clock driver (C10: "blocks inherit the nearest ancestor's clock driver"; C05: the domain lists are disjoint, duplicate-free
# and consistent, which _clk_cycle requires)
callee('m:isClockable', args=[], returns=True, ensures=['(result != 0) == clockable(self)'])
callee('m:getOrCreateClockDriverSimulator', args=['drv'], returns=True,
       requires=['forall(lambda d: implies(d in self.clockDrivers, self.clockDrivers[d] != None and self.clockDrivers[d].__alloc))'],
       modifies=['has:clockDrivers', 'val:clockDrivers', 'f:driver', 'len:clockables', 'f:#alloc'], ensures=_GOC)
callee('m:addClockable', args=['obj'], modifies=['el:clockables', 'len:clockables'], ensures=_ADDC)
_DISTINCT_L = lambda lst: 'forall(lambda i, j: implies(0 <= i and i < j and j < len(%s), %s[i] != %s[j]))' % (lst, lst, lst)
callee('m:allLeaves', args=[], returns='list',
       ensures=[_COVER('result'), 'forall(lambda v: implies(clockable(v), exists(lambda k: 0 <= k and k < len(result) and result[k] == v)))', _DISTINCT_L('result')])
_CDm = 'self.clockDrivers'
_REG = lambda v: '(nearest(%s) in %s and exists(lambda j: 0 <= j and j < len(%s[nearest(%s)].clockables) and %s[nearest(%s)].clockables[j] == %s))' % (v, _CDm, _CDm, v, _CDm, v, v)
_R1 = lambda hi: 'forall(lambda k: implies(0 <= k and k < %s and clockable(leaves[k]), %s))' % (hi, _REG('leaves[k]'))
# every listed block sits under its nearest driver; the leaves not visited yet are in no list (purely universal: an existential here
# would feed the one of R1 and send the instantiation into a loop)
_R2 = lambda hi: ('forall(lambda d, j: implies(d in %s and 0 <= j and j < len(%s[d].clockables), nearest(%s[d].clockables[j]) == d)) and '
                  'forall(lambda d, j, k: implies(d in %s and 0 <= j and j < len(%s[d].clockables) and %s <= k and k < len(leaves), %s[d].clockables[j] != leaves[k]))'
                  % (_CDm, _CDm, _CDm, _CDm, _CDm, hi, _CDm))
_R2E = 'forall(lambda d, j: implies(d in %s and 0 <= j and j < len(%s[d].clockables), nearest(%s[d].clockables[j]) == d))' % (_CDm, _CDm, _CDm)
_R3 = ('forall(lambda d: implies(d in %s, %s[d] != None and %s[d].__alloc)) and forall(lambda d, e: implies(d in %s and e in %s and d != e, %s[d] != %s[e]))'
       % (_CDm, _CDm, _CDm, _CDm, _CDm, _CDm, _CDm))
_R4 = 'forall(lambda d, i, j: implies(d in %s and 0 <= i and i < j and j < len(%s[d].clockables), %s[d].clockables[i] != %s[d].clockables[j]))' % (_CDm, _CDm, _CDm, _CDm)
hfunc(SIMF, 'Simulator.topologicalSort', ['self'], props=('C04', 'C05', 'C10'), refs=['self'],
      uses=['m:findFirstDependentPosition', 'm:allLeaves', 'm:isClockable', 'm:isPropagatable', 'm:getOrCreateClockDriverSimulator', 'm:addClockable', 'f:getObjectClockDriver'],
      modifies=['len:propagatables', 'el:propagatables', 'has:clockDrivers', 'val:clockDrivers', 'el:clockables', 'len:clockables', 'f:driver', 'f:#alloc'],
      raises_only_when='True',
      invariants={0: 'len(self.propagatables) >= 0 and forall(lambda k: implies(0 <= k and k < _i0 and propagatable(leaves[k]), '
                     'exists(lambda j: 0 <= j and j < len(self.propagatables) and self.propagatables[j] == leaves[k]))) and '
                     '%s and %s and %s and %s and forall(lambda o: implies(old(o.__alloc), o.__alloc))' % (_R1('_i0'), _R2('_i0'), _R3, _R4),
                  1: 'implies(not anyChange, %s) and %s' % (_STRICT('len(self.propagatables)'), _COVER('self.propagatables')),
                  2: 'implies(not anyChange, %s) and %s' % (_STRICT('_i2'), _COVER('self.propagatables'))},
      ensures=[_STRICT('len(self.propagatables)'), _COVER('self.propagatables'),
               # every sequential leaf is registered under the simulator of its nearest clock driver, and nowhere else; the domain lists are duplicate-free
               'forall(lambda v: implies(clockable(v), %s))' % _REG('v'), _R2E, _R3, _R4])


# Simulator(sys) for a system that has no simulator yet: the schedule is built and the netlist settled.  (__new__ returns the existing
# simulator when there is one -- after re-sorting it -- and is outside the model; getSimulator never takes that path.)
callee('m:propagateAll', args=[], modifies=['f:value', 'f:#epoch', 'f:#ok'])
hfunc(SIMF, 'Simulator.__init__', ['self', 'sys'], props=('C04',), refs=['self', 'sys'], uses=['m:topologicalSort', 'm:propagateAll'],
      requires=['sys.simulator == None'],
      modifies=_TS_MOD + ['f:total_clks', 'f:sys', 'len:listeners', 'f:value', 'f:#epoch', 'f:#ok'],
      ensures=_UPTODATE('self') + ['self.sys == sys'])


# ------------------------------------------------------------------------------------------------- C11: the port-registration invariant
# REGINV: the driver recorded for a wire is a port registered with its block -- the requires of checkIntegrity (under it checkPort cannot
# raise).  Logic.addOut keeps it: the port it creates becomes the driver (for a primitive) and is appended to the block's list.
_REGINV = 'forall(lambda w: implies(w.source != None, %s))' % _REGISTERED('w.source')
hfunc(B, 'Logic.addOut', ['self', 'name', 'wire'], props=('C11',), refs=['self', 'wire'], uses=['new:OutPort/3'],
      requires=[_REGINV, 'self.__alloc and wire.__alloc', 'forall(lambda w: implies(w.source != None, w.source.__alloc))',
                ],
      modifies=['f:name', 'f:parent', 'f:wire', 'f:source', 'len:outPorts', 'el:outPorts', 'f:#alloc'],
      raises_when='primitive(self) and wire.source != None',
      raises_ensures=[_SRC_UNCHANGED],
      ensures=['result == wire', _REGINV,
               'len(self.outPorts) == old(len(self.outPorts)) + 1 and self.outPorts[old(len(self.outPorts))].wire == wire and self.outPorts[old(len(self.outPorts))].parent == self',
               'implies(primitive(self), wire.source == self.outPorts[old(len(self.outPorts))])',
               'forall(lambda w: implies(w != wire, w.source == old(w.source)))'])
