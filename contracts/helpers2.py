"""Contracts of the IEEE-754 field packers / unpackers (C12, integer part): results as exact integer expressions,
inverse-pair lemmas stated over the contracts."""
from pvc.leaf import func

F = 'py4hw/helper.py'
BIG = (0, (1 << 80) - 1)

for cls in ('FPNum',):
    for fmt, (sb, ew, mw) in (('hp', (15, 5, 10)), ('sp', (31, 8, 23)), ('dp', (63, 11, 52))):
        func(F, '%s.unpack_ieee754_%s_parts' % (cls, fmt), ['v'], ranges={'v': BIG},
             ensures=['result[0] == fdiv(v, %d) %% 2' % (1 << sb), 'result[1] == fdiv(v, %d) %% %d' % (1 << mw, 1 << ew), 'result[2] == v %% %d' % (1 << mw),
                      # inverse pair: packing the fields of an n-bit pattern gives the pattern back
                      'implies(v < %d, result[0] * %d + result[1] * %d + result[2] == v)' % (1 << (sb + 1), 1 << sb, 1 << mw)])
        func(F, '%s.pack_ieee754_%s_parts' % (cls, fmt), ['s', 'e', 'm'], ranges={'s': BIG, 'e': BIG, 'm': BIG},
             result='(s %% 2) * %d + (e %% %d) * %d + m %% %d' % (1 << sb, 1 << ew, 1 << mw, 1 << mw),
             ensures=['0 <= result and result < %d' % (1 << (sb + 1)),
                      # unpacking what was packed returns the (masked) fields
                      'fdiv(result, %d) %% 2 == s %% 2 and fdiv(result, %d) %% %d == e %% %d and result %% %d == m %% %d'
                      % (1 << sb, 1 << mw, 1 << ew, 1 << ew, 1 << mw, 1 << mw)])

for fmt, (sb, ew, mw) in (('sp', (31, 8, 23)), ('dp', (63, 11, 52))):
    func(F, 'FloatingPointHelper.unpack_ieee754_%s_parts' % fmt, ['v'], ranges={'v': (0, (1 << (sb + 1)) - 1)},
         ensures=['result[0] == fdiv(v, %d)' % (1 << sb), 'result[1] == fdiv(v, %d) %% %d' % (1 << mw, 1 << ew), 'result[2] == v %% %d' % (1 << mw),
                  'result[0] * %d + result[1] * %d + result[2] == v' % (1 << sb, 1 << mw)])
func(F, 'FloatingPointHelper.pack_ieee754_sp_parts', ['s', 'e', 'm'], ranges={'s': BIG, 'e': BIG, 'm': BIG},
     result='(s % 2) * 2147483648 + (e % 256) * 8388608 + m % 8388608')
