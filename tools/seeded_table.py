#!/usr/bin/env python3
"""rewrites the seeded-change table of DESIGN.md (between the SEEDED markers) from seeded/*/meta.json and seeded/RESULTS.json"""
import json, glob, os, re
HERE = os.path.dirname(os.path.dirname(os.path.abspath(__file__)))
res = json.load(open(os.path.join(HERE, 'seeded', 'RESULTS.json')))
rows = []
for d in sorted(glob.glob(os.path.join(HERE, 'seeded', 'C*'))):
    sid = os.path.basename(d)
    m = json.load(open(os.path.join(d, 'meta.json')))
    r = res.get(sid, {})
    caught = []
    for p, v in (r.get('checks') or {}).items():
        for l in v.get('violations', [])[:2]:
            mm = re.search(r'replay=\S*/replay/%s/(\S+?)\.json(.*)$' % p, l)
            caught.append('%s: `%s`%s' % (p, mm.group(1)[:70] if mm else '?', ' (no-failing-input-found)' if 'no-failing' in l else ''))
    rows.append('| %s | %s | %s | %s |' % (sid, (m.get('summary') or '').replace('|', '/').replace('\n', ' ')[:230], (m.get('needs_to_manifest') or '').replace('|', '/').replace('\n', ' ')[:160],
                                      ('**caught** — ' + '; '.join(caught[:2])) if r.get('detected') else ('not run' if not r else '**missed**')))
tab = '\n\n| id | change | needs to manifest | result of the quick check(s) |\n|---|---|---|---|\n' + '\n'.join(rows) + '\n\n%d of %d seeded changes are caught.\n' % (
    sum(1 for s in res.values() if s.get('detected')), len(rows))
p = os.path.join(HERE, 'DESIGN.md'); s = open(p).read()
if 'SEEDED_TABLE_PLACEHOLDER' in s:
    s = s.replace('SEEDED_TABLE_PLACEHOLDER', '\n<!-- SEEDED:BEGIN -->' + tab + '<!-- SEEDED:END -->')
else:
    s = re.sub(r'<!-- SEEDED:BEGIN -->.*<!-- SEEDED:END -->', lambda m_: '<!-- SEEDED:BEGIN -->' + tab + '<!-- SEEDED:END -->', s, flags=re.S)
open(p, 'w').write(s)
print('table rewritten:', len(rows), 'rows')
