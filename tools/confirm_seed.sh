#!/bin/bash
# usage: confirm_seed.sh <src dir with patch.diff demo.py meta.json> <seed id>
# confirms in a scratch worktree: patch applies, full test suite passes, demo FAILs with / PASSes without; then stores under /verif/seeded/<id>/
set -u
SRC="$1"; ID="$2"
WT=/tmp/wt_confirm_$$
git -C /repo worktree add -q "$WT" HEAD || exit 2
trap 'git -C /repo worktree remove --force "$WT" >/dev/null 2>&1' EXIT
cd "$WT"
git apply "$SRC/patch.diff" || { echo "$ID: patch does not apply"; exit 1; }
T=$(PYTHONPATH="$WT" MPLBACKEND=Agg /venv/bin/python -m pytest -q -p no:cacheprovider --timeout=900 test 2>&1 | tail -1)
case "$T" in *failed*) # rerun once (flaky *_random)
  T=$(PYTHONPATH="$WT" MPLBACKEND=Agg /venv/bin/python -m pytest -q -p no:cacheprovider --timeout=900 test 2>&1 | tail -1);; esac
PYTHONPATH="$WT" MPLBACKEND=Agg /venv/bin/python "$SRC/demo.py" >/tmp/demo_with_$$.log 2>&1; RW=$?
git checkout -q -- . 
PYTHONPATH="$WT" MPLBACKEND=Agg /venv/bin/python "$SRC/demo.py" >/tmp/demo_without_$$.log 2>&1; RO=$?
echo "$ID: tests='$T' demo_with_exit=$RW demo_without_exit=$RO"
OK=0
case "$T" in *"161 passed"*) ;; *) OK=1;; esac
[ "$RW" -ne 0 ] || OK=1
[ "$RO" -eq 0 ] || OK=1
if [ $OK -eq 0 ]; then
  mkdir -p /verif/seeded/$ID
  cp "$SRC/patch.diff" "$SRC/demo.py" /verif/seeded/$ID/
  /venv/bin/python - "$SRC/meta.json" "$ID" "$T" <<'PY'
import json,sys
m=json.load(open(sys.argv[1])); 
m['id']=sys.argv[2]
m['confirmed']={'tests': sys.argv[3], 'demo_with_patch':'exit!=0 (FAIL)', 'demo_without_patch':'exit 0 (PASS)',
  'ran':['git apply patch.diff (scratch worktree of /repo HEAD)','python -m pytest -q -p no:cacheprovider --timeout=900 test','python demo.py (with patch)','git checkout -- . ; python demo.py (without patch)']}
json.dump(m,open('/verif/seeded/%s/meta.json'%sys.argv[2],'w'),indent=1)
PY
  echo "$ID: KEPT"
else
  echo "$ID: REJECTED"; tail -3 /tmp/demo_with_$$.log
fi
rm -f /tmp/demo_with_$$.log /tmp/demo_without_$$.log
