chk('C06', 'proof',
    'All four store paths of Wire/BidirWire (put, prepare, settle; get/getWidth as accessors) are proved from the real source of py4hw/base.py, for symbolic width and argument, to keep 0 <= value < 2**width; an AST scan proves no other code in the package stores to a wire field; every leaf registered with C06 additionally has its INV_wire and frame obligations discharged.',
    'Trusted: z3/cvc5, the pvc VC generator (cross-checked by native replay and the mutation corpus), static attribute lookup; three audited non-wire receivers of a field named value/next are allow-listed in props/C06.py.',
    'sidecar contracts + AST->SMT VC generation (Int mode, symbolic widths), z3', 'DESIGN.md section 4 / C06')
chk('C07', 'proof',
    'Leaf propagate() methods are proved against functional contracts taken from the statement, parametric in all widths where the solver bears it (otherwise on a width grid, all operand values); structural blocks are built by their real constructors and proved, per width tuple and for all operand values, from the composition of the proved leaf contracts.',
    'Bounded in configuration only (width/arity grid listed in evidence); data unbounded. Composition order trusted to C04.',
    'contract-based deductive verification: per-leaf VCs from the AST, modular composition of leaf contracts, z3 (Int and BV)', 'DESIGN.md section 4 / C07')
chk('C08', 'proof',
    'As C07, for gates, bit manipulation, selectors and comparators: leaf contracts proved from source; every structural block proved against its truth table for all input values per configuration of the grid.',
    'Bounded in configuration only (width/arity/constant grid); data unbounded.',
    'contract-based deductive verification: per-leaf VCs from the AST, modular composition of leaf contracts, z3 (Int and BV)', 'DESIGN.md section 4 / C08')
chk('C09', 'proof',
    'Clocked leaves (Reg.clock, SynchronousMemory.clock, Sequence.clock, AutoReset.clock, Latch/AsynchronousMemory propagate) are proved from source against the state-machine rule of the statement (parametric widths where possible); each sequential library block is proved, per configuration, to refine its reference state machine by init/step/output obligations over all states and inputs, i.e. for input sequences of any length.',
    'Bounded in configuration only (widths, depths, delays, moduli listed in evidence). Induction over edges is the meta-step. DualPortSynchronousMemory is a listed known finding.',
    'contract-based deductive verification: leaf VCs from the AST + one-step refinement over composed leaf contracts, z3', 'DESIGN.md section 4 / C09')
chk('C14', 'proof',
    'Fixed-point add/sub/sign/mult/comparator blocks are built by their real constructors and proved, per format of the grid and for all operand encodings, to equal exact scaled-integer arithmetic (sum/difference mod 2**w, signed product floor-shifted by af+bf-rf, sign bit, signed order under the representable-difference hypothesis) from the composition of leaf contracts; signExtend (helper) is proved parametrically from source.',
    'Bounded in the format grid only. The FixedPoint helper class methods (object-allocating) are covered in C12.',
    'contract-based deductive verification: modular composition of proved leaf contracts, z3 BV', 'DESIGN.md section 4 / C14')
chk('C16', 'proof',
    'Axi2Reg and Reg2Axi (real constructors, real clock domains) are proved to refine the reference machines written from the statement: init, one-step and output obligations over all states and all inputs, so every schedule of start/reset/done/load pulses and handshake timing is covered by induction; the history clauses of the statement are discharged as consequences of the reference machine.',
    'Bounded in (register width, stream width) grid only. The schedule assumption of the statement (done only after a completed transfer) is not needed by any obligation. FSM leaves of the Vitis wrapper are not part of the statement.',
    'contract-based deductive verification: one-step refinement over composed leaf contracts (Reg.clock + gates), z3 BV', 'DESIGN.md section 4 / C16')
chk('C13', 'proof',
    'FPComparator_SP (both modes), InttoFP_SP, FPtoInt_SP and FPMult_SP are built by their real constructors and proved for ALL operand patterns of the stated domain against specifications written on the real values of the patterns (integer arithmetic, scaled); the order lemma (real order == key order) is a separate Int-mode obligation with symbolic exponents. FPAdder_SP: sign, commutativity and the 2-ulp error bound are proved per exponent-gap x effective-operation slice (each slice symbolic in both mantissas, both signs and the smaller exponent); slices the solver leaves open in the budget (effective subtraction at gaps <= 3 in the quick tier) are served by a seeded boundary/random bounded stand-in and are NOT counted as discharged.',
    'Quick tier: gap slices {0..3,22..33,64,128,253}; thorough: all 254. FPMult_SP product uninterpreted (congruent, interval-bounded). Composition order trusted to C04; leaf contracts proved in C07/C08.',
    'contract-based deductive verification: composition of proved leaf contracts over the real netlist, z3 BV (+ Int-mode lemma); bounded native stand-in for undecided slices', 'DESIGN.md section 4 / C13')
chk('C20', 'proof',
    'CMDRequest.clock and CMDResponse.clock are symbolically executed from the real source (unbounded integer state, symbolic port widths, unconstrained handshake inputs at every step) and proved against the one-step protocol table derived from the statement: hexadecimal accumulation, strobes carrying the accumulated number, the K countdown, response characters and valid/ready holding. A bounded end-to-end companion (random command streams and responses under random pacing on the real blocks vs a reference parser) exercises the sequence-level reading and is labelled bounded.',
    'Sequence-level clauses follow from the one-step table by induction over characters (meta-step). Precondition size >= 1 for responses.',
    'contract-based deductive verification: VCs from the AST with state merging, Int mode, z3; bounded native companion', 'DESIGN.md section 4 / C20')
chk('C17', 'proof',
    'Per-function proof (from the real source) of the serializer framing table, the deserializer collection / hand-off table and the clock-sync FSM, plus refinement proofs of ClockDivider and EdgeDetector. The end-to-end delivery clause is NOT proved: a bounded stand-in runs the real link for ratios 4..16 (quick) / 4..64 and 434 (thorough), gaps 0..2T, two receiver pacings, with an independent software 8N1 receiver on the line.',
    'The protocol-level clause (product of five machines with a timing parameter) is outside the deductive reach chosen here (DESIGN section 4 / C17); its evidence is the bounded part only.',
    'contract-based deductive verification of the per-function tables (AST -> VCs, z3) + bounded simulation stand-in for the link clause', 'DESIGN.md section 4 / C17')
chk('C11', 'proof',
    'Every mutator of the driver / child / wire tables in py4hw/base.py is proved in heap mode (objects as references, attributes as maps, quantified frame conditions) to either update the table at exactly one key or raise with ALL tables, names and parents unchanged -- for arbitrary prior heaps, hence all construction sequences. The integrity-check and library-acceptance clauses are exercised by a bounded native stand-in (single-fault variants of every registered library block, random construction sequences), labelled bounded.',
    'checkIntegrity itself (recursive, five loops) is not under contract yet: its clause is bounded. Callee contracts getFullPath/isPrimitive/addSink are assumed.',
    'contract-based deductive verification in heap mode (AST -> quantified VCs, z3) + bounded native stand-in', 'DESIGN.md section 4 / C11')
