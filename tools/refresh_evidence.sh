#!/bin/bash
# re-run every registered quick check on the current (clean) /repo tree so that committed evidence comes from it
cd "$(dirname "$0")/.."
test -z "$(git -C /repo status --porcelain -uno)" || { echo "/repo not clean"; exit 1; }
for p in $(python3 -c "import json;print(' '.join(c['property_id'] for c in json.load(open('MANIFEST.json'))['checks']))"); do
  if [ $# -gt 0 ] && ! echo " $* " | grep -q " $p "; then continue; fi
  ./check $p --tier quick | tail -1
done
