#!/usr/bin/env python3
"""apply each seeded change to /repo, run the quick check of its property, undo it straight afterwards; record what fired"""
import json, os, subprocess, sys, glob, time
HERE = os.path.dirname(os.path.dirname(os.path.abspath(__file__)))
only = sys.argv[1:]
out = {}
respath = os.path.join(HERE, 'seeded', 'RESULTS.json')
if os.path.exists(respath): out = json.load(open(respath))
assert subprocess.run(['git', '-C', '/repo', 'status', '--porcelain', '-uno'], capture_output=True, text=True).stdout.strip() == '', '/repo not clean'
for d in sorted(glob.glob(os.path.join(HERE, 'seeded', 'C*'))):
    sid = os.path.basename(d)
    if only and not any(o in sid for o in only): continue
    meta = json.load(open(os.path.join(d, 'meta.json')))
    props = meta.get('check_with') or [meta['property']]
    r = subprocess.run(['git', '-C', '/repo', 'apply', os.path.join(d, 'patch.diff')], capture_output=True, text=True)
    if r.returncode != 0:
        out[sid] = {'error': 'patch does not apply: ' + r.stderr[-300:]}; print(sid, 'PATCH FAILS'); continue
    try:
        res = {}
        for p in props:
            t = time.time()
            pr = subprocess.run([os.path.join(HERE, 'check'), p, '--tier', 'quick'], capture_output=True, text=True, cwd=HERE)
            lines = [l for l in pr.stdout.splitlines() if l.startswith(('VIOLATION', 'KNOWN-FINDING', 'CHECKER'))]
            res[p] = {'exit': pr.returncode, 'violations': [l for l in lines if l.startswith('VIOLATION')][:8], 'other': [l[:160] for l in lines if not l.startswith('VIOLATION')][:5],
                      'wall_s': round(time.time() - t, 1)}
        out[sid] = {'summary': meta.get('summary', '')[:200], 'detected': any(v['exit'] == 1 for v in res.values()), 'checks': res}
        print(sid, 'DETECTED' if out[sid]['detected'] else 'MISSED', {p: (v['exit'], len(v['violations'])) for p, v in res.items()})
        for p, v in res.items():
            for l in v['violations'][:3]: print('    ', l)
    finally:
        subprocess.run(['git', '-C', '/repo', 'checkout', '--', '.'])
json.dump(out, open(respath, 'w'), indent=1)
# evidence files were rewritten by runs on mutated trees: restore the committed ones (they must come from the clean tree)
subprocess.run(['git', '-C', HERE, 'checkout', '--', 'evidence'])
