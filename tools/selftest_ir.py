#!/usr/bin/env python3
"""CPython differential of the encodings: random pvc.ir terms, native evaluation vs the BV and Int interpretations"""
import sys, os, random
sys.path.insert(0, os.path.dirname(os.path.dirname(os.path.abspath(__file__))))
from pvc import ir, smt
from pvc.ir import *


def rnd_term(d, vs, rnd):
    if d == 0 or rnd.random() < 0.2:
        return rnd.choice(vs) if rnd.random() < 0.7 else const(rnd.choice([-5, 0, 1, 2, 3, 7, 8, 20, 255, 256, 1 << 20]))
    op = rnd.choice(['add', 'sub', 'mul', 'neg', 'band', 'bor', 'bxor', 'bnot', 'shl', 'shr', 'ite', 'mod', 'fdiv', 'mask', 'kshr', 'kdiv', 'kmod'])
    a = rnd_term(d - 1, vs, rnd); b = rnd_term(d - 1, vs, rnd)
    if op == 'neg': return neg(a)
    if op == 'bnot': return bnot(a)
    if op == 'shl': return shl(a, band(b, const(7)))
    if op == 'shr': return shr(a, band(b, const(15)))
    if op == 'kshr': return shr(a, const(rnd.choice([0, 1, 2, 5, 8, 31, 40])))
    if op == 'kdiv': return fdiv(a, const(rnd.choice([1, 2, 4, 256, 1 << 20, 3, 10])))
    if op == 'kmod': return mod(a, const(rnd.choice([1, 2, 4, 256, 1 << 20, 3, 10])))
    if op == 'ite': return ite(lt(a, b), a, rnd_term(d - 1, vs, rnd))
    if op == 'mod': return mod(a, add(band(b, const(15)), const(1)))
    if op == 'fdiv': return fdiv(a, add(band(b, const(15)), const(1)))
    if op == 'mask': return band(a, sub(pow2(band(b, const(7))), const(1)))
    return getattr(ir, op)(a, b)


def main(n=400, seed=1):
    rnd = random.Random(seed)
    vs = [var('x', 0, 255), var('y', 0, 15), var('z', -8, 7), var('u', 0, 3)]
    bad = 0
    for it in range(n):
        t = rnd_term(4, vs, rnd)
        env = {'x': rnd.randint(0, 255), 'y': rnd.randint(0, 15), 'z': rnd.randint(-8, 7), 'u': rnd.randint(0, 3)}
        want = evaluate(t, env)
        hy = [eq(v, const(env[v.val])) for v in vs]
        for mode in ('bv', 'int'):
            v = smt.prove(hy, eq(t, const(want)), mode=mode, timeout_s=5, use_cvc5=False)
            if v.status == 'refuted' and mode == 'bv' or (v.status == 'unknown' and mode == 'bv'):
                bad += 1; print('MISMATCH', mode, v, show(t, 10), env, want)
            if v.status == 'refuted' and mode == 'int':
                # only legitimate when an uninterpreted bitwise operator is involved
                if not any(n.op in ('band', 'bor', 'bxor') for n in walk(t)):
                    bad += 1; print('MISMATCH int', show(t, 10), env, want)
    print('selftest_ir: %d terms, %d mismatches' % (n, bad))
    return 1 if bad else 0


if __name__ == '__main__':
    sys.exit(main(int(sys.argv[1]) if len(sys.argv) > 1 else 400, int(sys.argv[2]) if len(sys.argv) > 2 else 1))
