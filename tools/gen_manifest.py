#!/usr/bin/env python3
"""writes /verif/MANIFEST.json from the table below (kept in one place so it stays valid)"""
import json, os
HERE = os.path.dirname(os.path.dirname(os.path.abspath(__file__)))
CHECKS = {}
NA = {}


def chk(pid, category, text, note, technique, design_ref):
    CHECKS[pid] = dict(property_id=pid, quick_cmd='./check %s --tier quick' % pid, thorough_cmd='./check %s --tier thorough' % pid,
                       evidence_file='evidence/%s.json' % pid, replay_cmd_template='./check %s --replay {path}' % pid,
                       engine='pvc', level_claimed=dict(category=category, text=text, design_ref=design_ref), level_note=note,
                       technique=technique)


exec(open(os.path.join(HERE, 'tools', 'manifest_table.py')).read())
props = [json.loads(l)['id'] for l in open(os.path.join(HERE, 'properties.jsonl'))]
m = {
    'version': 1,
    'setup_cmd': './check setup',
    'hooks': {'guard': 'PY4HW_VERIF', 'enable': 'none needed: contracts are sidecar files and the VCs are generated from the AST of /repo on every run (PY4HW_VERIF=1 is exported by ./check but no source hook reads it)',
              'baseline_off_cmd': 'cd /repo && /venv/bin/python -m pytest -ra -q -p no:cacheprovider --timeout=900 --continue-on-collection-errors',
              'source_commits': [], 'add_only': True},
    'engines': [{'name': 'pvc', 'path': 'pvc/', 'serves_properties': sorted(CHECKS),
                 'kind_free_text': 'contract-based deductive verification: VC generation from the real Python AST (sidecar contracts), z3/cvc5 back ends, native replay of counter-models'}],
    'checks': [CHECKS[p] for p in props if p in CHECKS],
    'not_applicable': [dict(property_id=p, reason=NA.get(p, 'check not built yet in this round; see DESIGN.md section 4 for the planned contracts')) for p in props if p not in CHECKS],
    'notes': 'see DESIGN.md; known findings in known_findings.json; exit codes: 0 held, 1 violation, 2 undecided-and-no-stand-in, 3 checker error',
}
json.dump(m, open(os.path.join(HERE, 'MANIFEST.json'), 'w'), indent=1)
print('MANIFEST.json written: %d checks, %d not_applicable' % (len(m['checks']), len(m['not_applicable'])))
