"""AXI4-Stream adapters (C16): reference machines read off the property statement; one-step refinement
for all states/inputs gives every schedule of start/reset/done/load pulses and handshake timings."""
import math
from pvc import ir
from pvc.ir import M, ite, const, eq, ne, band_, bor_, not_
from pvc.netlist import block
import py4hw
import py4hw.emulation.vitiswrapping as VW
import py4hw.logic.bus.axi as AXI

F = 'py4hw/emulation/vitiswrapping.py'
U = lambda w: (0, (1 << w) - 1)
nz = lambda x: ne(x, 0)
b2i = lambda c: ite(c, 1, 0)


def _mk_a2r(s, c):
    st = AXI.AXI4StreamInterface(s, 's', c['dw'])
    ap_start = s.wire('ap_start'); ap_reset = s.wire('ap_reset'); ap_done = s.wire('ap_done')
    q = s.wire('q', c['w']); loaded = s.wire('loaded'); active = s.wire('active')
    obj = VW.Axi2Reg(s, 'dut', ap_start, ap_reset, ap_done, st, q, loaded, active)
    return obj, {'ap_start': ap_start, 'ap_reset': ap_reset, 'ap_done': ap_done, 'tvalid': st.tvalid, 'tdata': st.tdata}, \
        {'q': q, 'loaded': loaded, 'active': active, 'tready': st.tready}


def _a2r_step(c, S, I):
    accepted = band_(nz(S['active']), nz(I['tvalid']))
    clear = bor_(nz(I['ap_reset']), nz(I['ap_done']), band_(eq(S['active'], 0), nz(I['ap_start'])))
    return {'q': ite(clear, 0, ite(accepted, M(I['tdata'], c['w']), S['q'])),
            'loaded': ite(clear, 0, ite(accepted, 1, S['loaded'])),
            'active': ite(bor_(nz(I['ap_reset']), nz(I['ap_done'])), 0, ite(nz(I['ap_start']), 1, S['active']))}


def _a2r_lemmas(c, S, I, S1):
    accepted = band_(nz(S['active']), nz(I['tvalid']))
    clear = bor_(nz(I['ap_reset']), nz(I['ap_done']), band_(eq(S['active'], 0), nz(I['ap_start'])))
    return {'holds-most-recent-beat': ir.implies(band_(accepted, not_(clear)), band_(eq(S1['q'], M(I['tdata'], c['w'])), eq(S1['loaded'], 1))),
            'keeps-until-cleared': ir.implies(band_(not_(accepted), not_(clear)), band_(eq(S1['q'], S['q']), eq(S1['loaded'], S['loaded']))),
            'cleared-by-reset-done-restart': ir.implies(clear, band_(eq(S1['q'], 0), eq(S1['loaded'], 0))),
            'no-beat-while-inactive': ir.implies(eq(S['active'], 0), not_(accepted))}


block('Axi2Reg', props=('C16',), file=F, make=_mk_a2r,
      cfgs=lambda t: [dict(w=w, dw=dw) for dw in ((8, 32) if t == 'quick' else (8, 16, 32, 64, 128)) for w in sorted({1, 8, dw}) if w <= dw],
      seq=dict(state=lambda c: {'q': U(c['w']), 'loaded': U(1), 'active': U(1)}, init=lambda c: {'q': 0, 'loaded': 0, 'active': 0},
               regs=lambda c, S: {'reg_data': S['q'], 'loaded': S['loaded'], 'active': S['active']},
               step=_a2r_step, lemmas=_a2r_lemmas,
               out=lambda c, S, I: {'q': S['q'], 'loaded': S['loaded'], 'active': S['active'], 'tready': S['active']}))


def _mk_r2a(s, c):
    st = AXI.AXI4StreamInterface(s, 's', c['dw'], has_tlast=True, has_tkeep=True)
    ap_start = s.wire('ap_start'); ap_reset = s.wire('ap_reset'); ap_done = s.wire('ap_done'); load = s.wire('load_outs')
    reg_in = s.wire('reg_in', c['w']); sent = s.wire('sent'); active = s.wire('active')
    obj = VW.Reg2Axi(s, 'dut', ap_start, ap_reset, ap_done, load, reg_in, st, sent, active)
    return obj, {'ap_start': ap_start, 'ap_reset': ap_reset, 'ap_done': ap_done, 'load_outs': load, 'reg_in': reg_in, 'tready': st.tready}, \
        {'sent': sent, 'active': active, 'tvalid': st.tvalid, 'tdata': st.tdata, 'tlast': st.tlast, 'tkeep': st.tkeep}


def _r2a_step(c, S, I):
    accepted = band_(nz(S['active']), nz(S['tvalid']), nz(I['tready']))
    setv = band_(nz(I['load_outs']), nz(S['active']))
    return {'tvalid': ite(bor_(nz(I['ap_reset']), accepted), 0, ite(setv, 1, S['tvalid'])),
            'tdata': ite(setv, I['reg_in'], S['tdata']),
            'sent': ite(bor_(nz(I['ap_reset']), band_(eq(S['active'], 0), nz(I['ap_start'])), nz(I['ap_done'])), 0, ite(accepted, 1, S['sent'])),
            'active': ite(bor_(nz(I['ap_reset']), nz(I['ap_done'])), 0, ite(nz(I['ap_start']), 1, S['active']))}


def _r2a_lemmas(c, S, I, S1):
    accepted = band_(nz(S['active']), nz(S['tvalid']), nz(I['tready']))
    return {'valid-held-until-accepted-or-reset': ir.implies(band_(nz(S['tvalid']), not_(bor_(nz(I['ap_reset']), accepted))), nz(S1['tvalid'])),
            'data-changes-only-on-load': ir.implies(ne(S1['tdata'], S['tdata']), band_(nz(I['load_outs']), nz(S['active']))),
            'sent-rises-only-after-accepted-beat': ir.implies(band_(eq(S['sent'], 0), nz(S1['sent'])), accepted),
            'offers-latest-load': ir.implies(band_(nz(I['load_outs']), nz(S['active'])), eq(S1['tdata'], I['reg_in']))}


block('Reg2Axi', props=('C16',), file=F, make=_mk_r2a,
      cfgs=lambda t: [dict(w=w, dw=dw) for dw in ((8, 32) if t == 'quick' else (8, 16, 32, 64, 128)) for w in sorted({1, 8, dw}) if w <= dw],
      seq=dict(state=lambda c: {'tvalid': U(1), 'tdata': U(c['w']), 'sent': U(1), 'active': U(1)},
               init=lambda c: {'tvalid': 0, 'tdata': 0, 'sent': 0, 'active': 0},
               regs=lambda c, S: {'tvalid': S['tvalid'], 'tdata_ext': S['tdata'], 'sent': S['sent'], 'active': S['active']},
               step=_r2a_step, lemmas=_r2a_lemmas,
               out=lambda c, S, I: {'sent': S['sent'], 'active': S['active'], 'tvalid': S['tvalid'], 'tdata': S['tdata'],
                                    'tlast': S['tvalid'], 'tkeep': const((1 << math.ceil(c['w'] / 8)) - 1)}))
