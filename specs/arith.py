"""Block-level specifications of the structural arithmetic blocks (C07), written from the property
statement: result == integer operation reduced mod 2**(output width), signed variants on two's complement
readings.  spec(cfg, I, W) -> {output name: integer term}  (compared modulo 2**W[output])."""
import itertools
from pvc import ir
from pvc.ir import sx, M, ite, const, add, sub, mul, neg, fdiv, mod, pow2, eq, ne, lt, ge, band_, bor_
from pvc.netlist import block
import py4hw
from py4hw.logic import arithmetic as A, bitwise as B

QW = [1, 2, 3, 4, 5, 8]


def ws(tier, k=1):
    if tier == 'quick':
        return QW
    return QW + ([6, 7, 9, 16, 24, 31, 32, 33, 63, 64, 65] if k <= 2 else [16, 32, 33, 64])


def prod(tier, keys, filt=None, extra=None, small=False, stretch=True, heavy=False):
    base = ws(tier, len(keys))
    if heavy and tier != 'quick':
        base = QW + [16]          # dividers: bit-blasted division beyond 16 bits costs minutes per configuration
    if small and tier == 'quick':
        base = [1, 2, 3, 4, 8]
    out = []
    st = {1: [(130,)], 2: [(1, 130), (3, 131), (130, 1)], 3: [(1, 1, 130), (8, 8, 73)]}.get(len(keys), []) if stretch else []
    for tup in list(itertools.product(base, repeat=len(keys))) + st:
        d = dict(zip(keys, tup))
        for e in (extra or [{}]):
            dd = dict(d); dd.update(e)
            if filt is None or filt(dd): out.append(dd)
    return out


def absval(x):
    return ite(ge(x, 0), x, neg(x))


def truncdiv(a, b):
    q = fdiv(absval(a), absval(b))
    return ite(eq(ge(a, 0), ge(b, 0)), q, neg(q))


def mk(cls, innames, outnames, **fixed):
    """generic constructor wrapper: wires named by cfg keys"""
    def make(s, c):
        ins = {n: s.wire(n, c[n]) for n in innames if c.get(n)}
        outs = {n: s.wire(n, c[n]) for n in outnames if c.get(n)}
        kw = dict(fixed)
        obj = cls(s, 'dut', *[ins[n] for n in innames if n in ins and n not in kw], **{}) if False else None
        return obj, ins, outs
    return make


# ---------------------------------------------------------------------------------------------- Add
def _mk_add(s, c):
    a = s.wire('a', c['a']); b = s.wire('b', c['b']); r = s.wire('r', c['r'])
    ins = {'a': a, 'b': b}; outs = {'r': r}
    ci = co = None
    if c.get('ci'):
        ci = s.wire('ci', c['ci']); ins['ci'] = ci
    if c.get('co'):
        co = s.wire('co', 1); outs['co'] = co
    obj = A.Add(s, 'dut', a, b, r, ci=ci, co=co)
    return obj, ins, outs


def _spec_add(c, I, W):
    tot = add(add(I['a'], I['b']), I.get('ci', const(0)))
    out = {'r': tot}
    if c.get('co'):
        out['co'] = mod(fdiv(tot, pow2(W['r'])), 2)
    return out


block('Add', props=('C07',), file='py4hw/logic/arithmetic.py', make=_mk_add, spec=_spec_add,
      cfgs=lambda t: prod(t, ['a', 'b', 'r'], extra=[dict(ci=0, co=0), dict(ci=1, co=0), dict(ci=0, co=1), dict(ci=1, co=1)], small=True))


def _mk_sadd(s, c):
    a = s.wire('a', c['a']); b = s.wire('b', c['b']); r = s.wire('r', c['r'])
    ins = {'a': a, 'b': b}; outs = {'r': r}
    ci = None
    if c.get('ci'):
        ci = s.wire('ci', 1); ins['ci'] = ci
    return A.SignedAdd(s, 'dut', a, b, r, ci=ci), ins, outs


block('SignedAdd', props=('C07',), file='py4hw/logic/arithmetic.py', make=_mk_sadd,
      spec=lambda c, I, W: {'r': add(add(sx(I['a'], c['a']), sx(I['b'], c['b'])), I.get('ci', const(0)))},
      cfgs=lambda t: prod(t, ['a', 'b', 'r'], extra=[dict(ci=0), dict(ci=1)], small=True))


def _mk2(cls, **kw):
    def make(s, c):
        a = s.wire('a', c['a']); b = s.wire('b', c['b']); r = s.wire('r', c['r'])
        return cls(s, 'dut', a, b, r, **kw), {'a': a, 'b': b}, {'r': r}
    return make


def _mk1(cls):
    def make(s, c):
        a = s.wire('a', c['a']); r = s.wire('r', c['r'])
        return cls(s, 'dut', a, r), {'a': a}, {'r': r}
    return make


block('SignedSub', props=('C07',), file='py4hw/logic/arithmetic.py', make=_mk2(A.SignedSub),
      spec=lambda c, I, W: {'r': sub(sx(I['a'], c['a']), sx(I['b'], c['b']))},
      cfgs=lambda t: prod(t, ['a', 'b', 'r'], small=True))

block('Neg', props=('C07',), file='py4hw/logic/arithmetic.py', make=_mk1(A.Neg),
      spec=lambda c, I, W: {'r': neg(I['a'])}, cfgs=lambda t: prod(t, ['a', 'r']))

block('Sign', props=('C07',), file='py4hw/logic/arithmetic.py', make=_mk1(A.Sign),
      spec=lambda c, I, W: {'r': fdiv(I['a'], pow2(c['a'] - 1))}, cfgs=lambda t: [dict(a=w, r=1) for w in ws(t)])


def _mk_abs(s, c):
    a = s.wire('a', c['a']); r = s.wire('r', c['r'])
    outs = {'r': r}
    inv = None
    if c.get('inverted'):
        inv = s.wire('inverted', 1); outs['inverted'] = inv
    return A.Abs(s, 'dut', a, r, inverted=inv), {'a': a}, outs


def _spec_abs(c, I, W):
    out = {'r': absval(sx(I['a'], c['a']))}
    if c.get('inverted'):
        out['inverted'] = fdiv(I['a'], pow2(c['a'] - 1))
    return out


block('Abs', props=('C07',), file='py4hw/logic/arithmetic.py', make=_mk_abs, spec=_spec_abs,
      cfgs=lambda t: prod(t, ['a', 'r'], extra=[dict(inverted=0), dict(inverted=1)]))

block('SignedDiv', props=('C07',), file='py4hw/logic/arithmetic.py', make=_mk2(A.SignedDiv),
      requires=lambda c, I: [ne(I['b'], 0)],
      spec=lambda c, I, W: {'r': truncdiv(sx(I['a'], c['a']), sx(I['b'], c['b']))},
      cfgs=lambda t: prod(t, ['a', 'b', 'r'], small=True, stretch=False, heavy=True))

# single-leaf blocks at block level (constructor + leaf contract; statement-level reading)
block('Sub', props=('C07',), file='py4hw/logic/arithmetic.py', make=_mk2(A.Sub),
      spec=lambda c, I, W: {'r': sub(I['a'], I['b'])}, cfgs=lambda t: prod(t, ['a', 'b', 'r'], small=True))
block('Mul', props=('C07',), file='py4hw/logic/arithmetic.py', make=_mk2(A.Mul),
      spec=lambda c, I, W: {'r': mul(I['a'], I['b'])}, cfgs=lambda t: prod(t, ['a', 'b', 'r'], small=True, stretch=False))
block('SignedMul', props=('C07',), file='py4hw/logic/arithmetic.py', make=_mk2(A.SignedMul),
      spec=lambda c, I, W: {'r': mul(sx(I['a'], c['a']), sx(I['b'], c['b']))}, cfgs=lambda t: prod(t, ['a', 'b', 'r'], small=True, stretch=False))
block('Div', props=('C07',), file='py4hw/logic/arithmetic.py', make=_mk2(A.Div), requires=lambda c, I: [ne(I['b'], 0)],
      spec=lambda c, I, W: {'r': fdiv(I['a'], I['b'])}, cfgs=lambda t: prod(t, ['a', 'b', 'r'], small=True, stretch=False, heavy=True))
block('Mod', props=('C07',), file='py4hw/logic/arithmetic.py', make=_mk2(A.Mod), requires=lambda c, I: [ne(I['b'], 0)],
      spec=lambda c, I, W: {'r': mod(I['a'], I['b'])}, cfgs=lambda t: prod(t, ['a', 'b', 'r'], small=True, stretch=False, heavy=True))
block('SignExtend', props=('C07',), file='py4hw/logic/arithmetic.py', make=_mk1(A.SignExtend),
      spec=lambda c, I, W: {'r': sx(I['a'], c['a'])}, cfgs=lambda t: prod(t, ['a', 'r']))
block('ZeroExtend', props=('C07',), file='py4hw/logic/arithmetic.py', make=_mk1(A.ZeroExtend),
      spec=lambda c, I, W: {'r': I['a']}, cfgs=lambda t: prod(t, ['a', 'r']))


def _mk_sub_bi(s, c):
    a = s.wire('a', c['a']); b = s.wire('b', c['b']); r = s.wire('r', c['r']); bi = s.wire('bi', 1)
    return A.SubBorrowIn(s, 'dut', a, b, r, bi), {'a': a, 'b': b, 'bi': bi}, {'r': r}


block('SubBorrowIn', props=('C07',), file='py4hw/logic/arithmetic.py', make=_mk_sub_bi,
      spec=lambda c, I, W: {'r': sub(sub(I['a'], I['b']), I['bi'])},
      cfgs=lambda t: prod(t, ['a', 'b', 'r'], small=True, filt=lambda d: d['r'] >= d['a']))


# ---------------------------------------------------------------------------------------------- shifts / rotations
def _mk_shift(cls, **kw):
    def make(s, c):
        a = s.wire('a', c['a']); b = s.wire('b', c['b']); r = s.wire('r', c['r'])
        ins = {'a': a, 'b': b}
        k = dict(kw)
        if c.get('arith') == 'wire':
            aw = s.wire('arith', 1); ins['arith'] = aw; k['arithmetic'] = aw
        elif c.get('arith'):
            k['arithmetic'] = True
        return cls(s, 'dut', a, b, r, **k), ins, {'r': r}
    return make


def _shift_cfgs(t, arith=(None,)):
    was = [1, 2, 3, 4, 8] if t == 'quick' else [1, 2, 3, 4, 5, 8, 16, 32, 33, 64]
    wbs = [1, 2, 3, 4] if t == 'quick' else [1, 2, 3, 4, 5, 6]
    out = []
    for a in was:
        for b in wbs:
            for r in sorted({a, max(1, a - 1), a + 2}):
                for ar in arith:
                    d = dict(a=a, b=b, r=r)
                    if ar: d['arith'] = ar
                    out.append(d)
    return out


block('ShiftLeft', props=('C07',), file='py4hw/logic/arithmetic.py', make=_mk_shift(A.ShiftLeft),
      spec=lambda c, I, W: {'r': ir.shl(I['a'], I['b'])}, cfgs=lambda t: _shift_cfgs(t))


def _spec_shr(c, I, W):
    logical = ir.shr(I['a'], I['b'])
    arith = ir.shr(sx(I['a'], c['a']), I['b'])
    if c.get('arith') == 'wire':
        return {'r': ite(ne(I['arith'], 0), arith, logical)}
    return {'r': arith if c.get('arith') else logical}


block('ShiftRight', props=('C07',), file='py4hw/logic/arithmetic.py', make=_mk_shift(A.ShiftRight), spec=_spec_shr,
      cfgs=lambda t: _shift_cfgs(t, arith=(None, True, 'wire')))


def _rot_cfgs(t):
    # the statement quantifies over "all rotation amounts up to the data width": b <= W(a) is a requires
    was = [1, 2, 3, 4, 5, 8] if t == 'quick' else [1, 2, 3, 4, 5, 7, 8, 16, 32, 33, 64]
    wbs = [1, 2, 3, 4] if t == 'quick' else [1, 2, 3, 4, 5, 6]
    return [dict(a=a, b=b, r=a) for a in was for b in wbs]


def _rotl(c, I, W):
    w = c['a']; x = I['a']; n = I['b']
    return {'r': add(mod(ir.shl(x, n), pow2(w)), ir.shr(x, sub(w, n)))}


def _rotr(c, I, W):
    w = c['a']; x = I['a']; n = I['b']
    return {'r': add(ir.shr(x, n), mod(ir.shl(x, sub(w, n)), pow2(w)))}


block('RotateLeft', props=('C07',), file='py4hw/logic/arithmetic.py', make=_mk_shift(A.RotateLeft), spec=_rotl,
      requires=lambda c, I: [ir.le(I['b'], c['a'])], cfgs=_rot_cfgs)
block('RotateRight', props=('C07',), file='py4hw/logic/arithmetic.py', make=_mk_shift(A.RotateRight), spec=_rotr,
      requires=lambda c, I: [ir.le(I['b'], c['a'])], cfgs=_rot_cfgs)


def _mk_kshift(cls):
    def make(s, c):
        a = s.wire('a', c['a']); r = s.wire('r', c['r'])
        return cls(s, 'dut', a, c['n'], r), {'a': a}, {'r': r}
    return make


_kcfg = lambda t: [dict(a=a, r=r, n=n) for a in ws(t) for r in sorted({a, 1, a + 1}) for n in (0, 1, 2, a, a + 3)]
block('ShiftLeftConstant', props=('C07',), file='py4hw/logic/bitwise.py', make=_mk_kshift(B.ShiftLeftConstant),
      spec=lambda c, I, W: {'r': ir.shl(I['a'], c['n'])}, cfgs=_kcfg)
block('ShiftRightConstant', props=('C07',), file='py4hw/logic/bitwise.py', make=_mk_kshift(B.ShiftRightConstant),
      spec=lambda c, I, W: {'r': ir.shr(I['a'], c['n'])}, cfgs=_kcfg)
_rkcfg = lambda t: [dict(a=a, r=r, n=n) for a in ws(t) for r in sorted({a, a + 1}) for n in sorted({0, 1, a // 2, a - 1, a})]
block('RotateLeftConstant', props=('C07',), file='py4hw/logic/bitwise.py', make=_mk_kshift(B.RotateLeftConstant),
      spec=lambda c, I, W: {'r': add(mod(ir.shl(I['a'], c['n']), pow2(c['a'])), ir.shr(I['a'], c['a'] - c['n']))}, cfgs=_rkcfg)
block('RotateRightConstant', props=('C07',), file='py4hw/logic/bitwise.py', make=_mk_kshift(B.RotateRightConstant),
      spec=lambda c, I, W: {'r': add(ir.shr(I['a'], c['n']), mod(ir.shl(I['a'], c['a'] - c['n']), pow2(c['a'])))}, cfgs=_rkcfg)


# ---------------------------------------------------------------------------------------------- CLZ / BCD
def _mk_clz(s, c):
    a = s.wire('a', c['a']); r = s.wire('r', c['r']); z = s.wire('z', 1)
    return A.CountLeadingZeros(s, 'dut', a, r, z), {'a': a}, {'r': r, 'z': z}


def _spec_clz(c, I, W):
    w = c['a']; x = I['a']
    # W(a) - bitlength(a): the number of i in 0..w-1 with x < 2**i ... as a nested ite from the top bit down
    r = const(w)
    for i in range(w):
        r = ite(ge(x, 1 << i), const(w - 1 - i), r)
    return {'r': r, 'z': ite(eq(x, 0), 1, 0)}


def _clz_cfgs(t):
    import math
    was = [2, 3, 4, 5, 8] if t == 'quick' else [2, 3, 4, 5, 7, 8, 9, 16, 24, 25, 31, 32, 33, 64]
    out = []
    for a in was:
        need = max(1, int(math.ceil(math.log2(a))))
        for r in sorted({need, need + 1, need + 3}):
            out.append(dict(a=a, r=r))
    return out


block('CountLeadingZeros', props=('C07',), file='py4hw/logic/arithmetic.py', make=_mk_clz, spec=_spec_clz, cfgs=_clz_cfgs)


def _spec_bcd(c, I, W):
    digits = c['r'] // 4
    tot = const(0)
    x = I['a']
    for i in range(digits):
        d = mod(fdiv(x, 10 ** i), 10)
        tot = add(tot, mul(d, 1 << (4 * i)))
    return {'r': tot}


block('BinaryToBCD', props=('C07',), file='py4hw/logic/arithmetic.py', make=_mk1(A.BinaryToBCD), spec=_spec_bcd,
      cfgs=lambda t: [dict(a=a, r=r) for a in ([4, 5, 8] if t == 'quick' else [4, 5, 7, 8, 10, 12, 16]) for r in (4, 8, 12, 16) if r >= 4])
