"""Reference state machines of the sequential library blocks (C09), from the property statement / docstrings.
Each spec: state (name -> range), init, regs (refinement mapping: clocked leaf path -> its content as a function
of the spec state), step, out (outputs as a function of state and current inputs), optional requires."""
import itertools
from pvc import ir
from pvc.ir import sx, M, ite, const, add, sub, mul, neg, fdiv, mod, pow2, eq, ne, lt, le, gt, ge, band_, bor_, band, bor, bxor, not_
from pvc.netlist import block
from py4hw.logic import storage as S_, arithmetic as A, clock as CK, bitwise as B

FS = 'py4hw/logic/storage.py'
FA = 'py4hw/logic/arithmetic.py'
FC = 'py4hw/logic/clock.py'


def U(w):
    return (0, (1 << w) - 1)


def nz(x):
    return ne(x, 0)


# ------------------------------------------------------------------------------------------ Reg (block level)
def _mk_reg(s, c):
    d = s.wire('d', c['w']); q = s.wire('q', c['w']); ins = {'d': d}
    e = r = None
    if c.get('e'): e = s.wire('e', c['e']); ins['e'] = e
    if c.get('r'): r = s.wire('r', c['r']); ins['r'] = r
    return S_.Reg(s, 'reg', d, q, enable=e, reset=r, reset_value=c.get('rv')), ins, {'q': q}


def _reg_step(c, S, I):
    nxt = I['d'] if not c.get('e') else ite(nz(I['e']), I['d'], S['v'])
    if c.get('r'):
        nxt = ite(eq(I['r'], 1), c.get('rv') or 0, nxt)
    return {'v': nxt, 'first': const(0)}


# `first` distinguishes power-up (q wire still 0 while the register holds reset_value) from later cycles
block('Reg', props=('C09',), file=FS, make=_mk_reg,
      cfgs=lambda t: [dict(w=w, e=e, r=r, rv=rv) for w in ((1, 2, 3, 8) if t == 'quick' else (1, 2, 3, 8, 32, 64))
                      for e in (0, 1, 2) for r in (0, 1) for rv in ((None, 5) if r else (None,))],
      seq=dict(state=lambda c: {'v': (0, max((1 << c['w']) - 1, c.get('rv') or 0)), 'first': (0, 1)},
               invariant=lambda c, S: [ir.implies(eq(S['first'], 1), eq(S['v'], c.get('rv') or 0))],
               init=lambda c: {'v': c.get('rv') or 0, 'first': 1},
               regs=lambda c, S: {'': {'fields': {'value': S['v']}, 'q': {'q': ite(eq(S['first'], 1), 0, S['v'])}}},
               step=_reg_step,
               out=lambda c, S, I: {'q': ite(eq(S['first'], 1), 0, S['v'])}))


# ------------------------------------------------------------------------------------------ TReg
def _mk_treg(s, c):
    t = s.wire('t', 1); q = s.wire('q', 1); ins = {'t': t}
    e = r = None
    if c.get('e'): e = s.wire('e', 1); ins['e'] = e
    if c.get('r'): r = s.wire('r', 1); ins['r'] = r
    return S_.TReg(s, 'dut', t, q, enable=e, reset=r), ins, {'q': q}


def _treg_step(c, S, I):
    tog = ite(nz(I['t']), sub(1, S['s']), S['s'])
    nxt = tog if not c.get('e') else ite(nz(I['e']), tog, S['s'])
    if c.get('r'): nxt = ite(eq(I['r'], 1), 0, nxt)
    return {'s': nxt}


block('TReg', props=('C09',), file=FS, make=_mk_treg, cfgs=lambda t: [dict(e=e, r=r) for e in (0, 1) for r in (0, 1)],
      seq=dict(state=lambda c: {'s': U(1)}, init=lambda c: {'s': 0}, regs=lambda c, S: {'reg': S['s']},
               step=_treg_step, out=lambda c, S, I: {'q': S['s']}))


# ------------------------------------------------------------------------------------------ counters
def _mk_counter(s, c):
    q = s.wire('q', c['w']); ins = {}
    rs = inc = None
    if c.get('reset'): rs = s.wire('reset', 1); ins['reset'] = rs
    if c.get('inc'): inc = s.wire('inc', 1); ins['inc'] = inc
    return A.Counter(s, 'dut', rs, inc, q), ins, {'q': q}


def _counter_step(c, S, I):
    w = c['w']
    inc = nz(I['inc']) if c.get('inc') else ir.TRUE
    nxt = ite(inc, M(add(S['s'], 1), w), S['s'])
    if c.get('reset'): nxt = ite(nz(I['reset']), 0, nxt)
    return {'s': nxt}


block('Counter', props=('C09',), file=FA, make=_mk_counter,
      cfgs=lambda t: [dict(w=w, reset=r, inc=i) for w in ((1, 2, 3, 8) if t == 'quick' else (1, 2, 3, 8, 16, 32, 64)) for r in (1, 0) for i in (1, 0)],
      seq=dict(state=lambda c: {'s': U(c['w'])}, init=lambda c: {'s': 0}, regs=lambda c, S: {'reg': S['s']},
               step=_counter_step, out=lambda c, S, I: {'q': S['s']}))


def _mk_modcounter(s, c):
    rs = s.wire('reset', 1); inc = s.wire('inc', 1); q = s.wire('q', c['w']); co = s.wire('carryout', 1)
    return A.ModuloCounter(s, 'dut', c['mod'], rs, inc, q, co), {'reset': rs, 'inc': inc}, {'q': q, 'carryout': co}


def _modc_step(c, S, I):
    m = c['mod']
    nxt = ite(nz(I['inc']), ite(eq(S['s'], m - 1), 0, add(S['s'], 1)), S['s'])
    return {'s': ite(nz(I['reset']), 0, nxt)}


def _modc_cfgs(t):
    out = []
    for mod_ in ((2, 3, 4, 5, 7, 8, 9, 10) if t == 'quick' else (2, 3, 4, 5, 6, 7, 8, 9, 10, 16, 17, 100, 434)):
        need = max(1, (mod_ - 1).bit_length())
        for w in sorted({need, need + 1}):
            out.append(dict(mod=mod_, w=w))
    return out


# the counter stays below its modulus: invariant of the reference machine (needed for the wrap rule to be total)
block('ModuloCounter', props=('C09',), file=FA, make=_mk_modcounter, cfgs=_modc_cfgs,
      seq=dict(state=lambda c: {'s': U(c['w'])}, invariant=lambda c, S: [lt(S['s'], c['mod'])],
               init=lambda c: {'s': 0}, regs=lambda c, S: {'reg': S['s']}, step=_modc_step,
               out=lambda c, S, I: {'q': S['s'], 'carryout': ite(eq(S['s'], c['mod'] - 1), 1, 0)}))


def _mk_stepup(s, c):
    q = s.wire('q', c['w']); step = s.wire('step', c['sw']); ins = {'step': step}
    rs = inc = None
    if c.get('reset'): rs = s.wire('reset', 1); ins['reset'] = rs
    if c.get('inc'): inc = s.wire('inc', 1); ins['inc'] = inc
    return A.StepUpCounter(s, 'dut', rs, inc, step, q), ins, {'q': q}


def _stepup_step(c, S, I):
    inc = nz(I['inc']) if c.get('inc') else ir.TRUE
    nxt = ite(inc, M(add(S['s'], I['step']), c['w']), S['s'])
    if c.get('reset'): nxt = ite(nz(I['reset']), 0, nxt)
    return {'s': nxt}


block('StepUpCounter', props=('C09',), file=FA, make=_mk_stepup,
      cfgs=lambda t: [dict(w=w, sw=sw, reset=r, inc=i) for w in (2, 3, 8) for sw in sorted({1, 2, w}) if sw <= w for r in (1, 0) for i in (1, 0)],
      seq=dict(state=lambda c: {'s': U(c['w'])}, init=lambda c: {'s': 0}, regs=lambda c, S: {'reg': S['s']},
               step=_stepup_step, out=lambda c, S, I: {'q': S['s']}))


# ------------------------------------------------------------------------------------------ delay line / pipeline
def _mk_delay(s, c):
    a = s.wire('a', c['w']); r = s.wire('r', c['w']); ins = {'a': a}
    en = rs = None
    if c.get('en'): en = s.wire('en', 1); ins['en'] = en
    if c.get('reset'): rs = s.wire('reset', 1); ins['reset'] = rs
    return S_.DelayLine(s, 'dut', a, en, rs, r, c['delay']), ins, {'r': r}


def _delay_step(c, S, I):
    n = c['delay']; out = {}
    for i in range(n):
        src = I['a'] if i == 0 else S['c%d' % (i - 1)]
        nxt = src if not c.get('en') else ite(nz(I['en']), src, S['c%d' % i])
        if c.get('reset'): nxt = ite(eq(I['reset'], 1), 0, nxt)
        out['c%d' % i] = nxt
    return out


block('DelayLine', props=('C09',), file=FS, make=_mk_delay,
      cfgs=lambda t: [dict(w=w, delay=d, en=e, reset=r) for w in (1, 3, 8) for d in ((1, 2, 3, 4) if t == 'quick' else (1, 2, 3, 4, 6, 8)) for e in (1, 0) for r in (1, 0)],
      seq=dict(state=lambda c: {'c%d' % i: U(c['w']) for i in range(c['delay'])}, init=lambda c: {'c%d' % i: 0 for i in range(c['delay'])},
               regs=lambda c, S: {'r%d' % i: S['c%d' % i] for i in range(c['delay'])}, step=_delay_step,
               out=lambda c, S, I: {'r': S['c%d' % (c['delay'] - 1)]}))


def _mk_pipe(s, c):
    rs = s.wire('reset', 1)
    ins = [s.wire('i%d' % k, w) for k, w in enumerate(c['ws'])]; outs = [s.wire('o%d' % k, w) for k, w in enumerate(c['ws'])]
    d = {'reset': rs}; d.update({'i%d' % k: w for k, w in enumerate(ins)})
    return S_.PipelinePhase(s, 'dut', rs, ins, outs), d, {'o%d' % k: w for k, w in enumerate(outs)}


block('PipelinePhase', props=('C09',), file=FS, make=_mk_pipe,
      cfgs=lambda t: [dict(ws=ws) for ws in ((1,), (3,), (1, 8), (2, 3, 4))],
      seq=dict(state=lambda c: {'c%d' % k: U(w) for k, w in enumerate(c['ws'])}, init=lambda c: {'c%d' % k: 0 for k in range(len(c['ws']))},
               regs=lambda c, S: {'r%d' % k: S['c%d' % k] for k in range(len(c['ws']))},
               step=lambda c, S, I: {'c%d' % k: ite(eq(I['reset'], 1), 0, I['i%d' % k]) for k in range(len(c['ws']))},
               out=lambda c, S, I: {'o%d' % k: S['c%d' % k] for k in range(len(c['ws']))}))


# ------------------------------------------------------------------------------------------ shift register / stack
def _mk_srb(s, c):
    w = c['w']
    li = s.wire('left_in', w); ri = s.wire('right_in', w); lo = s.wire('left_out', w); ro = s.wire('right_out', w)
    sl = s.wire('shift_left', 1); sr = s.wire('shift_right', 1)
    return S_.ShiftRegisterBidirectional(s, 'dut', li, ri, lo, ro, sl, sr, c['depth']), \
        {'left_in': li, 'right_in': ri, 'shift_left': sl, 'shift_right': sr}, {'left_out': lo, 'right_out': ro}


def _srb_step(c, S, I):
    n = c['depth']; out = {}
    sl = nz(I['shift_left']); sr = nz(I['shift_right'])
    for i in range(n):
        from_right = I['right_in'] if i == n - 1 else S['c%d' % (i + 1)]     # shifting left: content moves toward index 0
        from_left = I['left_in'] if i == 0 else S['c%d' % (i - 1)]
        out['c%d' % i] = ite(sl, from_right, ite(sr, from_left, S['c%d' % i]))
    return out


_srb_cfgs = lambda t: [dict(w=w, depth=d) for w in (1, 3, 8) for d in ((1, 2, 3, 4) if t == 'quick' else (1, 2, 3, 4, 6, 8))]
block('ShiftRegisterBidirectional', props=('C09',), file=FS, make=_mk_srb, cfgs=_srb_cfgs,
      seq=dict(state=lambda c: {'c%d' % i: U(c['w']) for i in range(c['depth'])}, init=lambda c: {'c%d' % i: 0 for i in range(c['depth'])},
               regs=lambda c, S: {'r%d' % i: S['c%d' % i] for i in range(c['depth'])}, step=_srb_step,
               out=lambda c, S, I: {'left_out': S['c0'], 'right_out': S['c%d' % (c['depth'] - 1)]}))


def _mk_stack(s, c):
    w = c['w']
    din = s.wire('din', w); dout = s.wire('dout', w); push = s.wire('push', 1); pop = s.wire('pop', 1)
    return S_.Stack_ShiftRegister(s, 'dut', din, dout, push, pop, None, None, c['depth']), {'din': din, 'push': push, 'pop': pop}, {'dout': dout}


def _stack_step(c, S, I):
    # bounded LIFO: push puts din on top and moves everything one place down (the bottom cell falls off);
    # pop hands the top cell to dout and moves everything one place up (zero enters at the bottom)
    n = c['depth']; out = {}
    push = nz(I['push']); pop = nz(I['pop'])
    for i in range(n):
        below = const(0) if i == n - 1 else S['c%d' % (i + 1)]
        above = I['din'] if i == 0 else S['c%d' % (i - 1)]
        out['c%d' % i] = ite(pop, below, ite(push, above, S['c%d' % i]))
    out['dout'] = ite(pop, S['c0'], S['dout'])
    return out


block('Stack_ShiftRegister', props=('C09',), file=FS, make=_mk_stack, cfgs=_srb_cfgs,
      seq=dict(state=lambda c: dict({'c%d' % i: U(c['w']) for i in range(c['depth'])}, dout=U(c['w'])),
               init=lambda c: dict({'c%d' % i: 0 for i in range(c['depth'])}, dout=0),
               requires=lambda c, S, I: [not_(band_(nz(I['push']), nz(I['pop'])))],
               regs=lambda c, S: dict({'shift/r%d' % i: S['c%d' % i] for i in range(c['depth'])}, dout=S['dout']),
               step=_stack_step, out=lambda c, S, I: {'dout': S['dout']}))


# ------------------------------------------------------------------------------------------ edge detector / clock divider
def _mk_edge(s, c):
    a = s.wire('a', 1); r = s.wire('r', 1)
    return CK.EdgeDetector(s, 'dut', a, r, c['dir']), {'a': a}, {'r': r}


def _edge_out(c, S, I):
    a = I['a']; z = S['z']
    if c['dir'] == 'pos': return {'r': ite(band_(nz(a), eq(z, 0)), 1, 0)}
    if c['dir'] == 'neg': return {'r': ite(band_(eq(a, 0), nz(z)), 1, 0)}
    return {'r': ite(ne(a, z), 1, 0)}


block('EdgeDetector', props=('C09', 'C17'), file=FC, make=_mk_edge, cfgs=lambda t: [dict(dir=d) for d in ('pos', 'neg', 'both')],
      seq=dict(state=lambda c: {'z': U(1)}, init=lambda c: {'z': 0}, regs=lambda c, S: {'z1': S['z']},
               step=lambda c, S, I: {'z': I['a']}, out=_edge_out))


def _mk_clkdiv(s, c):
    out = s.wire('clkout', 1); ins = {}
    rs = None
    if c.get('reset'): rs = s.wire('reset', 1); ins['reset'] = rs
    return CK.ClockDivider(s, 'dut', c['fin'], c['fout'], out, reset=rs), ins, {'clkout': out}


def _clkdiv_n(c):
    return int(c['fin'] / (2 * c['fout']))


def _clkdiv_step(c, S, I):
    n = _clkdiv_n(c)
    wrap = eq(S['cnt'], n - 1)
    cnt = ite(wrap, 0, add(S['cnt'], 1))
    clk = ite(wrap, sub(1, S['clk']), S['clk'])
    if c.get('reset'):
        r = nz(I['reset'])
        cnt = ite(r, 0, cnt); clk = ite(eq(I['reset'], 1), 0, clk)
    return {'cnt': cnt, 'clk': clk}


def _clkdiv_cfgs(t):
    pairs = [(8, 1), (12, 1), (16, 1), (20, 2), (100, 5), (64, 1)] if t == 'quick' else [(8, 1), (10, 1), (12, 1), (14, 1), (16, 1), (20, 2), (100, 5), (64, 1), (50000000, 115200 * 2), (868, 1)]
    return [dict(fin=a, fout=b, reset=r) for a, b in pairs for r in (0, 1)]


import math
block('ClockDivider', props=('C09', 'C17'), file=FC, make=_mk_clkdiv, cfgs=_clkdiv_cfgs,
      seq=dict(state=lambda c: {'cnt': (0, (1 << (int(math.log2(c['fin'] / (2 * c['fout']))) + 1)) - 1), 'clk': U(1)},
               invariant=lambda c, S: [lt(S['cnt'], _clkdiv_n(c))],
               init=lambda c: {'cnt': 0, 'clk': 0},
               regs=lambda c, S: {'count/reg': S['cnt'], 'clkout/reg': S['clk']},
               step=_clkdiv_step, out=lambda c, S, I: {'clkout': S['clk']}))


# ------------------------------------------------------------------------------------------ synchronous memory (block level)
def _mk_smem(s, c):
    aw, dw = c['aw'], c['dw']
    ra = s.wire('ra', aw); wa = s.wire('wa', aw); we = s.wire('we', 1); rd = s.wire('rd', dw); wd = s.wire('wd', dw)
    return S_.SynchronousMemory(s, 'mem', ra, wa, we, rd, wd), {'ra': ra, 'wa': wa, 'we': we, 'wd': wd}, {'rd': rd}
