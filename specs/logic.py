"""Block-level specifications of logic, selection and comparison blocks (C08): the truth tables of the
property statement / docstrings as integer terms."""
import itertools, math
from pvc import ir
from pvc.ir import sx, M, ite, const, add, sub, mul, neg, fdiv, mod, pow2, eq, ne, lt, le, gt, ge, band_, bor_, band, bor, bxor
from pvc.netlist import block
from py4hw.logic import bitwise as B, relational as R

FB = 'py4hw/logic/bitwise.py'
FR = 'py4hw/logic/relational.py'


def b2i(c):
    return ite(c, 1, 0)


def bit(x, i):
    return mod(fdiv(x, 1 << i), 2)


def nary(cls, fold, unit=None, neg_w=False, minn=1):
    def make(s, c):
        # 'ws' (optional): one width per operand -- operands of different widths are accepted by the constructors
        ins = [s.wire('i%d' % k, (c['ws'][k] if c.get('ws') else c['w'])) for k in range(c['n'])]
        r = s.wire('r', c['rw'])
        return cls(s, 'dut', ins, r), {'i%d' % k: w for k, w in enumerate(ins)}, {'r': r}

    def spec(c, I, W):
        acc = I['i0']
        for k in range(1, c['n']):
            acc = fold(acc, I['i%d' % k])
        if neg_w:
            acc = sub(neg(acc), 1)      # complement, reduced to the output width by the comparison
        return {'r': acc}
    return make, spec


def nary_cfgs(t, minn=1):
    ns = [n for n in ((1, 2, 3, 4, 5, 6) if t == 'quick' else (1, 2, 3, 4, 5, 6, 8, 16)) if n >= minn]
    ws = (1, 2, 3, 8) if t == 'quick' else (1, 2, 3, 8, 32, 64)
    mixed = [dict(n=len(x), w=max(x), ws=x, rw=rw) for x in ((1, 3, 3), (3, 1, 3), (3, 3, 1), (2, 3, 4, 4)) for rw in (3, 4, 6) if len(x) >= minn]
    return [dict(n=n, w=w, rw=w) for n in ns for w in ws] + mixed


for _name, _fold, _neg, _minn in (('And', band, False, 1), ('Or', bor, False, 1), ('Xor', bxor, False, 2), ('Nor', bor, True, 1)):
    _mk, _sp = nary(getattr(B, _name), _fold, neg_w=_neg)
    block(_name, props=('C08',), file=FB, make=_mk, spec=_sp, cfgs=(lambda m: (lambda t: nary_cfgs(t, m)))(_minn))


def two(cls, f):
    def make(s, c):
        a = s.wire('a', c.get('aw', c['w'])); b = s.wire('b', c.get('bw', c['w'])); r = s.wire('r', c.get('rw', c['w']))
        return cls(s, 'dut', a, b, r), {'a': a, 'b': b}, {'r': r}
    return make, (lambda c, I, W: {'r': f(I['a'], I['b'])})


_w1 = lambda t: [dict(w=w) for w in ((1, 2, 3, 4, 5, 8) if t == 'quick' else (1, 2, 3, 4, 5, 8, 16, 32, 33, 64))]
# operands and result of different widths (narrow first / second operand, wider / narrower result)
_w2 = lambda t: _w1(t) + [dict(w=max(x), aw=x[0], bw=x[1], rw=x[2]) for x in ((1, 3, 3), (3, 1, 3), (1, 1, 3), (2, 2, 4), (4, 4, 2), (3, 4, 6), (4, 2, 1))]
for _name, _f in (('Nand2', lambda a, b: sub(neg(band(a, b)), 1)), ('Nor2', lambda a, b: sub(neg(bor(a, b)), 1)), ('Xor2', bxor),
                  ('And2', band), ('Or2', bor)):
    _mk, _sp = two(getattr(B, _name), _f)
    block(_name, props=('C08',), file=FB, make=_mk, spec=_sp, cfgs=_w2)


def _mk_1(cls, rw=None):
    def make(s, c):
        a = s.wire('a', c['w']); r = s.wire('r', rw or c.get('rw', c['w']))
        return cls(s, 'dut', a, r), {'a': a}, {'r': r}
    return make


block('Not', props=('C08',), file=FB, make=_mk_1(B.Not), spec=lambda c, I, W: {'r': sub(neg(I['a']), 1)}, cfgs=_w1)
block('Buf', props=('C08',), file=FB, make=_mk_1(B.Buf), spec=lambda c, I, W: {'r': I['a']}, cfgs=_w1)
block('AndBits', props=('C08',), file=FB, make=_mk_1(B.AndBits, 1), spec=lambda c, I, W: {'r': b2i(eq(I['a'], (1 << c['w']) - 1))}, cfgs=_w1)
block('OrBits', props=('C08',), file=FB, make=_mk_1(B.OrBits, 1), spec=lambda c, I, W: {'r': b2i(ne(I['a'], 0))}, cfgs=_w1)


def _mk_bufen(s, c):
    a = s.wire('a', c['w']); en = s.wire('en', 1); r = s.wire('r', c['w'])
    return B.BufEnable(s, 'dut', a, en, r), {'a': a, 'en': en}, {'r': r}


block('BufEnable', props=('C08',), file=FB, make=_mk_bufen, spec=lambda c, I, W: {'r': ite(ne(I['en'], 0), I['a'], 0)}, cfgs=_w1)


# bit manipulation at block level (constructor-order reading)
def _mk_bit(s, c):
    a = s.wire('a', c['w']); r = s.wire('r', 1)
    return B.Bit(s, 'dut', a, c['bit'], r), {'a': a}, {'r': r}


block('Bit', props=('C08',), file=FB, make=_mk_bit, spec=lambda c, I, W: {'r': bit(I['a'], c['bit'])},
      cfgs=lambda t: [dict(w=w, bit=b) for w in (1, 2, 3, 5, 8) for b in range(w)])


def _mk_range(s, c):
    a = s.wire('a', c['w']); r = s.wire('r', c['high'] - c['low'] + 1)
    return B.Range(s, 'dut', a, c['high'], c['low'], r), {'a': a}, {'r': r}


block('Range', props=('C08',), file=FB, make=_mk_range,
      spec=lambda c, I, W: {'r': mod(fdiv(I['a'], 1 << c['low']), 1 << (c['high'] - c['low'] + 1))},
      cfgs=lambda t: [dict(w=w, high=h, low=l) for w in (1, 2, 3, 5, 8) for l in range(w) for h in range(l, w)])


def _mk_bits(cls):
    def make(s, c):
        a = s.wire('a', c['w']); bits = [s.wire('b%d' % i, 1) for i in range(c['w'])]
        return cls(s, 'dut', a, bits), {'a': a}, {'b%d' % i: w for i, w in enumerate(bits)}
    return make


block('BitsLSBF', props=('C08',), file=FB, make=_mk_bits(B.BitsLSBF),
      spec=lambda c, I, W: {'b%d' % i: bit(I['a'], i) for i in range(c['w'])}, cfgs=_w1)
block('BitsMSBF', props=('C08',), file=FB, make=_mk_bits(B.BitsMSBF),
      spec=lambda c, I, W: {'b%d' % i: bit(I['a'], c['w'] - 1 - i) for i in range(c['w'])}, cfgs=_w1)


def _mk_cat(cls):
    def make(s, c):
        ins = [s.wire('i%d' % k, w) for k, w in enumerate(c['ws'])]
        r = s.wire('r', sum(c['ws']) + c.get('pad', 0))
        return cls(s, 'dut', ins, r), {'i%d' % k: w for k, w in enumerate(ins)}, {'r': r}
    return make


def _cat_spec(msbf):
    def spec(c, I, W):
        order = list(range(len(c['ws'])))
        if not msbf: order.reverse()       # LSBF: first argument least significant
        acc = const(0)
        for k in order:                    # most significant first
            acc = add(mul(acc, 1 << c['ws'][k]), I['i%d' % k])
        return {'r': acc}
    return spec


def _cat_cfgs(t):
    out = []
    for n in (1, 2, 3, 4):
        for ws in itertools.product((1, 2, 3), repeat=min(n, 3)):
            ws = tuple(ws) + (2,) * (n - len(ws))
            for pad in (0, 1):
                out.append(dict(ws=ws, pad=pad))
    return out


block('ConcatenateMSBF', props=('C08',), file=FB, make=_mk_cat(B.ConcatenateMSBF), spec=_cat_spec(True), cfgs=_cat_cfgs)
block('ConcatenateLSBF', props=('C08',), file=FB, make=_mk_cat(B.ConcatenateLSBF), spec=_cat_spec(False), cfgs=_cat_cfgs)


def _mk_repeat(s, c):
    a = s.wire('a', c['w']); r = s.wire('r', c['rw'])
    return B.Repeat(s, 'dut', a, r), {'a': a}, {'r': r}


block('Repeat', props=('C08',), file=FB, make=_mk_repeat, spec=lambda c, I, W: {'r': ite(ne(I['a'], 0), (1 << c['rw']) - 1, 0)},
      cfgs=lambda t: [dict(w=w, rw=rw) for w in (1, 2) for rw in (1, 2, 3, 8, 33)])


# ---------------------------------------------------------------------------------------------- selectors
def _mk_mux2(s, c):
    sel = s.wire('sel', 1); a = s.wire('a', c['w']); b = s.wire('b', c['w']); r = s.wire('r', c['w'])
    return B.Mux2(s, 'dut', sel, a, b, r), {'sel': sel, 'a': a, 'b': b}, {'r': r}


block('Mux2', props=('C08',), file=FB, make=_mk_mux2, spec=lambda c, I, W: {'r': ite(ne(I['sel'], 0), I['b'], I['a'])}, cfgs=_w1)


def _mk_mux(s, c):
    k = c['k']
    sel = s.wire('sel', k); ins = [s.wire('i%d' % j, c['w']) for j in range(1 << k)]; r = s.wire('r', c['w'])
    d = {'sel': sel}; d.update({'i%d' % j: w for j, w in enumerate(ins)})
    return B.Mux(s, 'dut', sel, ins, r), d, {'r': r}


def _spec_mux(c, I, W):
    n = 1 << c['k']
    r = I['i%d' % (n - 1)]
    for j in range(n - 2, -1, -1):
        r = ite(eq(I['sel'], j), I['i%d' % j], r)
    return {'r': r}


block('Mux', props=('C08',), file=FB, make=_mk_mux, spec=_spec_mux,
      cfgs=lambda t: [dict(k=k, w=w) for k in ((1, 2, 3) if t == 'quick' else (1, 2, 3, 4)) for w in (1, 2, 3, 8)])


def _mk_demux(s, c):
    k = c['k']
    a = s.wire('a', c['w']); sel = s.wire('sel', k); r = [s.wire('r%d' % j, c['w']) for j in range(1 << k)]
    return B.Demux(s, 'dut', a, sel, r), {'a': a, 'sel': sel}, {'r%d' % j: w for j, w in enumerate(r)}


block('Demux', props=('C08',), file=FB, make=_mk_demux,
      spec=lambda c, I, W: {'r%d' % j: ite(eq(I['sel'], j), I['a'], 0) for j in range(1 << c['k'])},
      cfgs=lambda t: [dict(k=k, w=w) for k in ((1, 2, 3) if t == 'quick' else (1, 2, 3, 4)) for w in (1, 2, 3, 8)])


def _mk_dec(s, c):
    a = s.wire('a', c['w']); b = [s.wire('b%d' % j, 1) for j in range(c['n'])]
    return B.Decoder(s, 'dut', a, b), {'a': a}, {'b%d' % j: w for j, w in enumerate(b)}


block('Decoder', props=('C08',), file=FB, make=_mk_dec,
      spec=lambda c, I, W: {'b%d' % j: b2i(eq(I['a'], j)) for j in range(c['n'])},
      cfgs=lambda t: [dict(w=w, n=1 << w) for w in ((1, 2, 3) if t == 'quick' else (1, 2, 3, 4, 5))])


def _mk_sel(cls):
    def make(s, c):
        n = c['n']
        sels = [s.wire('s%d' % j, 1) for j in range(n)]; ins = [s.wire('i%d' % j, c['w']) for j in range(n)]; r = s.wire('r', c['w'])
        d = {'s%d' % j: w for j, w in enumerate(sels)}; d.update({'i%d' % j: w for j, w in enumerate(ins)})
        return cls(s, 'dut', sels, ins, r), d, {'r': r}
    return make


def _spec_select(c, I, W):
    # OR of the inputs whose select is 1 (stronger than the one-hot reading, which it implies)
    acc = const(0)
    for j in range(c['n']):
        acc = bor(acc, ite(ne(I['s%d' % j], 0), I['i%d' % j], 0))
    return {'r': acc}


_selcfg = lambda t: [dict(n=n, w=w) for n in ((1, 2, 3, 4) if t == 'quick' else (1, 2, 3, 4, 6, 8)) for w in (1, 2, 3, 8)]
block('Select', props=('C08',), file=FB, make=_mk_sel(B.Select), spec=_spec_select, cfgs=_selcfg)
block('OneHotMux', props=('C08',), file=FB, make=_mk_sel(B.OneHotMux), spec=_spec_select, cfgs=_selcfg)


def _mk_ohd(s, c):
    n = c['n']
    sels = [s.wire('s%d' % j, 1) for j in range(n)]; a = s.wire('a', c['w']); outs = [s.wire('o%d' % j, c['w']) for j in range(n)]
    d = {'s%d' % j: w for j, w in enumerate(sels)}; d['a'] = a
    return B.OneHotDemux(s, 'dut', sels, a, outs), d, {'o%d' % j: w for j, w in enumerate(outs)}


block('OneHotDemux', props=('C08',), file=FB, make=_mk_ohd,
      spec=lambda c, I, W: {'o%d' % j: ite(ne(I['s%d' % j], 0), I['a'], 0) for j in range(c['n'])}, cfgs=_selcfg)


def _mk_seldef(s, c):
    n = c['n']
    sels = [s.wire('s%d' % j, 1) for j in range(n)]; ins = [s.wire('i%d' % j, c['w']) for j in range(n)]
    dflt = s.wire('default', c['w']); r = s.wire('r', c['w'])
    d = {'s%d' % j: w for j, w in enumerate(sels)}; d.update({'i%d' % j: w for j, w in enumerate(ins)}); d['default'] = dflt
    return B.SelectDefault(s, 'dut', sels, ins, dflt, r), d, {'r': r}


def _spec_seldef(c, I, W):
    r = I['default']
    for j in range(c['n'] - 1, -1, -1):
        r = ite(ne(I['s%d' % j], 0), I['i%d' % j], r)
    return {'r': r}


block('SelectDefault', props=('C08',), file=FB, make=_mk_seldef, spec=_spec_seldef, cfgs=_selcfg)


def _mk_prio(s, c):
    n = c['n']
    a = [s.wire('a%d' % j, 1) for j in range(n)]; r = [s.wire('r%d' % j, 1) for j in range(n)]
    return B.PriorityEncoder(s, 'dut', a, r, inc_priority=c['inc']), {'a%d' % j: w for j, w in enumerate(a)}, {'r%d' % j: w for j, w in enumerate(r)}


def _spec_prio(c, I, W):
    # one-hot of the winning active input; inc_priority=True: the highest index wins (pinned by Test_PriorityEncoder)
    n = c['n']; out = {}
    for j in range(n):
        others = range(j + 1, n) if c['inc'] else range(0, j)
        out['r%d' % j] = b2i(band_(ne(I['a%d' % j], 0), *[eq(I['a%d' % k], 0) for k in others]))
    return out


block('PriorityEncoder', props=('C08',), file=FB, make=_mk_prio, spec=_spec_prio,
      cfgs=lambda t: [dict(n=n, inc=inc) for n in ((1, 2, 3, 4, 7) if t == 'quick' else (1, 2, 3, 4, 7, 8, 16)) for inc in (True, False)])


def _mk_minterm(s, c):
    bits = [s.wire('b%d' % j, 1) for j in range(c['n'])]; r = s.wire('r', 1)
    return B.Minterm(s, 'dut', bits, c['value'], r), {'b%d' % j: w for j, w in enumerate(bits)}, {'r': r}


block('Minterm', props=('C08',), file=FB, make=_mk_minterm,
      spec=lambda c, I, W: {'r': b2i(band_(*[eq(I['b%d' % j], (c['value'] >> j) & 1) for j in range(c['n'])]))},
      cfgs=lambda t: [dict(n=n, value=v) for n in (1, 2, 3, 4) for v in range(1 << n)])


def _mk_som(s, c):
    a = s.wire('a', c['w']); r = s.wire('r', 1)
    return B.SumOfMinterms(s, 'dut', a, list(c['minterms']), r), {'a': a}, {'r': r}


block('SumOfMinterms', props=('C08',), file=FB, make=_mk_som,
      spec=lambda c, I, W: {'r': b2i(bor_(*[eq(I['a'], m) for m in c['minterms']]))},
      cfgs=lambda t: [dict(w=w, minterms=ms) for w in (2, 3, 4) for ms in ((0,), (1, 2), (0, 3, (1 << w) - 1), tuple(range(0, 1 << w, 3)))])


def _mk_swap(s, c):
    a = s.wire('a', c['w']); b = s.wire('b', c['w']); sw = s.wire('swap', 1); ra = s.wire('ra', c['w']); rb = s.wire('rb', c['w'])
    return R.Swap(s, 'dut', a, b, sw, ra, rb), {'a': a, 'b': b, 'swap': sw}, {'ra': ra, 'rb': rb}


block('Swap', props=('C08',), file=FR, make=_mk_swap,
      spec=lambda c, I, W: {'ra': ite(ne(I['swap'], 0), I['b'], I['a']), 'rb': ite(ne(I['swap'], 0), I['a'], I['b'])}, cfgs=_w1)


# ---------------------------------------------------------------------------------------------- comparators
def _mk_eqc(cls):
    def make(s, c):
        a = s.wire('a', c['w']); r = s.wire('r', 1)
        return cls(s, 'dut', a, c['v'], r), {'a': a}, {'r': r}
    return make


# constants < 2**w (the statement's "all constants" for a w-bit comparison; larger ones are a C01 matter)
_eqc_cfgs = lambda t: [dict(w=w, v=v) for w in ((1, 2, 3, 4, 8) if t == 'quick' else (1, 2, 3, 4, 8, 16, 33)) for v in sorted({0, 1, (1 << w) - 1, (1 << w) // 2, 5 % (1 << w)})]
block('EqualConstant', props=('C08',), file=FR, make=_mk_eqc(R.EqualConstant), spec=lambda c, I, W: {'r': b2i(eq(I['a'], c['v']))}, cfgs=_eqc_cfgs)
block('NotEqualConstant', props=('C08',), file=FR, make=_mk_eqc(R.NotEqualConstant), spec=lambda c, I, W: {'r': b2i(ne(I['a'], c['v']))}, cfgs=_eqc_cfgs)


def _mk_equal(s, c):
    a = s.wire('a', c['w']); b = s.wire('b', c['w']); r = s.wire('r', 1)
    return R.Equal(s, 'dut', a, b, r), {'a': a, 'b': b}, {'r': r}


block('Equal', props=('C08',), file=FR, make=_mk_equal, spec=lambda c, I, W: {'r': b2i(eq(I['a'], I['b']))}, cfgs=_w1)


def _mk_anyeq(s, c):
    ins = [s.wire('i%d' % j, c['w']) for j in range(c['n'])]; r = s.wire('r', 1)
    return R.AnyEqual(s, 'dut', ins, r), {'i%d' % j: w for j, w in enumerate(ins)}, {'r': r}


block('AnyEqual', props=('C08',), file=FR, make=_mk_anyeq,
      spec=lambda c, I, W: {'r': b2i(bor_(*[eq(I['i%d' % i], I['i%d' % j]) for i in range(c['n']) for j in range(i + 1, c['n'])]))},
      cfgs=lambda t: [dict(n=n, w=w) for n in (2, 3, 4) for w in (1, 2, 3, 8)])


def _mk_cmp(s, c):
    a = s.wire('a', c['w']); b = s.wire('b', c['w']); g = s.wire('gt', 1); e = s.wire('eq', 1); l = s.wire('lt', 1)
    return R.Comparator(s, 'dut', a, b, g, e, l), {'a': a, 'b': b}, {'gt': g, 'eq': e, 'lt': l}


block('Comparator', props=('C08',), file=FR, make=_mk_cmp,
      spec=lambda c, I, W: {'gt': b2i(gt(I['a'], I['b'])), 'eq': b2i(eq(I['a'], I['b'])), 'lt': b2i(lt(I['a'], I['b']))}, cfgs=_w1)


def _mk_cmpsu(s, c):
    a = s.wire('a', c['w']); b = s.wire('b', c['w'])
    o = {n: s.wire(n, 1) for n in ('gtu', 'eq', 'ltu', 'gt', 'lt')}
    return R.ComparatorSignedUnsigned(s, 'dut', a, b, o['gtu'], o['eq'], o['ltu'], o['gt'], o['lt']), {'a': a, 'b': b}, o


def _spec_cmpsu(c, I, W):
    a, b = I['a'], I['b']; sa, sb = sx(a, c['w']), sx(b, c['w'])
    return {'gtu': b2i(gt(a, b)), 'eq': b2i(eq(a, b)), 'ltu': b2i(lt(a, b)), 'gt': b2i(gt(sa, sb)), 'lt': b2i(lt(sa, sb))}


block('ComparatorSignedUnsigned', props=('C08',), file=FR, make=_mk_cmpsu, spec=_spec_cmpsu, cfgs=_w1)


def _mk_mm(cls):
    def make(s, c):
        a = s.wire('a', c.get('aw', c['w'])); b = s.wire('b', c.get('bw', c['w'])); r = s.wire('r', c.get('rw', c['w']))
        return cls(s, 'dut', a, b, r), {'a': a, 'b': b}, {'r': r}
    return make


block('Max2', props=('C08',), file=FR, make=_mk_mm(R.Max2), spec=lambda c, I, W: {'r': ite(ge(I['a'], I['b']), I['a'], I['b'])}, cfgs=_w1)
block('Min2', props=('C08',), file=FR, make=_mk_mm(R.Min2), spec=lambda c, I, W: {'r': ite(le(I['a'], I['b']), I['a'], I['b'])}, cfgs=_w1)
block('SignedMax2', props=('C08',), file=FR, make=_mk_mm(R.SignedMax2),
      spec=lambda c, I, W: {'r': ite(ge(sx(I['a'], c['w']), sx(I['b'], c['w'])), I['a'], I['b'])}, cfgs=_w1)
block('SignedMin2', props=('C08',), file=FR, make=_mk_mm(R.SignedMin2),
      spec=lambda c, I, W: {'r': ite(le(sx(I['a'], c['w']), sx(I['b'], c['w'])), I['a'], I['b'])}, cfgs=_w1)
