"""Fixed-point blocks (C14): exact scaled-integer arithmetic on signed formats (sign, int, frac)."""
import itertools
from pvc import ir
from pvc.ir import sx, M, ite, const, add, sub, mul, neg, fdiv, mod, pow2, eq, ne, lt, le, gt, ge, band_, bor_
from pvc.netlist import block
from py4hw.logic import arithmetic_fxp as FX, relational as R

F = 'py4hw/logic/arithmetic_fxp.py'


def fmts(t):
    rng = (0, 1, 2, 3) if t == 'quick' else (0, 1, 2, 3, 4, 7)
    out = [(1, i, f) for i in rng for f in rng]
    if t != 'quick': out += [(1, 7, 8), (1, 15, 16), (1, 0, 15)]
    return out


def _mk3(cls):
    def make(s, c):
        af, bf, rf = c['af'], c['bf'], c['rf']
        a = s.wire('a', sum(af)); b = s.wire('b', sum(bf)); r = s.wire('r', sum(rf))
        return cls(s, 'dut', a, af, b, bf, r, rf), {'a': a, 'b': b}, {'r': r}
    return make


_same = lambda t: [dict(af=f, bf=f, rf=f) for f in fmts(t)]
block('FixedPointAdd', props=('C14',), file=F, make=_mk3(FX.FixedPointAdd), cfgs=_same,
      spec=lambda c, I, W: {'r': add(I['a'], I['b'])})
block('FixedPointSub', props=('C14',), file=F, make=_mk3(FX.FixedPointSub), cfgs=_same,
      spec=lambda c, I, W: {'r': sub(I['a'], I['b'])})


def _mult_cfgs(t):
    fs = fmts('quick') if t == 'quick' else fmts('quick') + [(1, 4, 4), (1, 7, 8)]
    out = []
    for af, bf in itertools.product(fs, repeat=2):
        for rf in sorted({af, bf, (1, af[1] + bf[1], af[2] + bf[2]), (1, 1, 1)}):
            if af[2] + bf[2] - rf[2] >= 0:
                out.append(dict(af=af, bf=bf, rf=rf))
    if t == 'quick':
        out = out[::3]
    return out


def _spec_mult(c, I, W):
    af, bf, rf = c['af'], c['bf'], c['rf']
    p = mul(sx(I['a'], sum(af)), sx(I['b'], sum(bf)))
    return {'r': fdiv(p, 1 << (af[2] + bf[2] - rf[2]))}      # floor = truncation of the two's complement bits


block('FixedPointMult', props=('C14',), file=F, make=_mk3(FX.FixedPointMult), cfgs=_mult_cfgs, spec=_spec_mult)


def _mk_sign(s, c):
    a = s.wire('a', sum(c['af'])); r = s.wire('s', 1)
    return FX.FixedPointSign(s, 'dut', a, c['af'], r), {'a': a}, {'s': r}


block('FixedPointSign', props=('C14',), file=F, make=_mk_sign, cfgs=lambda t: [dict(af=f) for f in fmts(t)],
      spec=lambda c, I, W: {'s': fdiv(I['a'], 1 << (sum(c['af']) - 1))})


def _mk_cmp(s, c):
    af = c['af']
    a = s.wire('a', sum(af)); b = s.wire('b', sum(af)); g = s.wire('gt', 1); e = s.wire('eq', 1); l = s.wire('lt', 1)
    return R.FixedPointComparator(s, 'dut', a, af, b, af, g, e, l), {'a': a, 'b': b}, {'gt': g, 'eq': e, 'lt': l}


def _cmp_req(c, I):
    w = sum(c['af'])
    d = sub(sx(I['a'], w), sx(I['b'], w))
    return [ge(d, -(1 << (w - 1))), lt(d, 1 << (w - 1))]       # "whenever their difference is representable"


def _cmp_spec(c, I, W):
    w = sum(c['af']); a = sx(I['a'], w); b = sx(I['b'], w)
    return {'gt': ite(gt(a, b), 1, 0), 'eq': ite(eq(a, b), 1, 0), 'lt': ite(lt(a, b), 1, 0)}


block('FixedPointComparator', props=('C14',), file='py4hw/logic/relational.py', make=_mk_cmp, requires=_cmp_req, spec=_cmp_spec,
      cfgs=lambda t: [dict(af=f) for f in fmts(t) if sum(f) >= 2])
