"""Single-precision floating-point blocks (C13).  The real value of a pattern is written in integer arithmetic:
  value(s, e, f) = (-1)**s * (2**23 + f) * 2**(e - 150)        for a normal pattern (1 <= e <= 254)
and every clause of the statement is stated on these values (scaled by a common power of two), not on the
circuit's own intermediate fields."""
from pvc import ir
from pvc.ir import sx, M, ite, const, add, sub, mul, neg, fdiv, mod, pow2, eq, ne, lt, le, gt, ge, band_, bor_, not_, shl, shr, implies
from pvc.netlist import block
from py4hw.logic import arithmetic_fp as FP, relational as R

F = 'py4hw/logic/arithmetic_fp.py'
b2i = lambda c: ite(c, 1, 0)


def parts(x):
    return fdiv(x, 1 << 31), mod(fdiv(x, 1 << 23), 256), mod(x, 1 << 23)


def normal(x):
    s, e, f = parts(x)
    return band_(ge(e, 1), le(e, 254))


def absval(x):
    return ite(ge(x, 0), x, neg(x))


# ---------------------------------------------------------------------------------------------- comparator
def _mk_fpcmp(s, c):
    a = s.wire('a', 32); b = s.wire('b', 32); g = s.wire('gt'); e = s.wire('eq'); l = s.wire('lt')
    return R.FPComparator_SP(s, 'dut', a, b, g, e, l, absolute=c['absolute']), {'a': a, 'b': b}, {'gt': g, 'eq': e, 'lt': l}


def _fpcmp_spec(c, I, W):
    """ordering of the real values.  The real value of a normal pattern is (-1)**s * (2**23+f) * 2**(e-150); that
    the (signed) order of these values is the (signed) order of the keys e*2**23+f is a fact about integers,
    stated as a lemma and discharged on its own (Int mode, symbolic e and f); the block is then compared with the keys."""
    sa, ea, fa = parts(I['a']); sb, eb, fb = parts(I['b'])
    ka = add(mul(ea, 1 << 23), fa); kb = add(mul(eb, 1 << 23), fb)
    if not c['absolute']:
        ka = ite(eq(sa, 1), neg(ka), ka); kb = ite(eq(sb, 1), neg(kb), kb)
    # the lemma, on fresh unconstrained variables
    v = lambda n: ir.var('lem_' + n)
    Ea, Eb, Fa, Fb, Sa, Sb = v('ea'), v('eb'), v('fa'), v('fb'), v('sa'), v('sb')
    hy = [ge(Ea, 1), le(Ea, 254), ge(Eb, 1), le(Eb, 254), ge(Fa, 0), lt(Fa, 1 << 23), ge(Fb, 0), lt(Fb, 1 << 23),
          ge(Sa, 0), le(Sa, 1), ge(Sb, 0), le(Sb, 1)]
    Va = mul(add(1 << 23, Fa), pow2(Ea)); Vb = mul(add(1 << 23, Fb), pow2(Eb))
    Ka = add(mul(Ea, 1 << 23), Fa); Kb = add(mul(Eb, 1 << 23), Fb)
    if not c['absolute']:
        Va = ite(eq(Sa, 1), neg(Va), Va); Vb = ite(eq(Sb, 1), neg(Vb), Vb)
        Ka = ite(eq(Sa, 1), neg(Ka), Ka); Kb = ite(eq(Sb, 1), neg(Kb), Kb)
    lemma = band_(ir.iff(gt(Va, Vb), gt(Ka, Kb)), ir.iff(eq(Va, Vb), eq(Ka, Kb)), ir.iff(lt(Va, Vb), lt(Ka, Kb)))
    return {'gt': b2i(gt(ka, kb)), 'eq': b2i(eq(ka, kb)), 'lt': b2i(lt(ka, kb)),
            'lemma:real-order-iff-key-order': ('int', hy, lemma)}


block('FPComparator_SP', props=('C13',), file='py4hw/logic/relational.py', make=_mk_fpcmp, spec=_fpcmp_spec,
      requires=lambda c, I: [normal(I['a']), normal(I['b'])], cfgs=lambda t: [dict(absolute=False), dict(absolute=True)], timeout=120)


# ---------------------------------------------------------------------------------------------- int -> float
def _mk_i2f(s, c):
    a = s.wire('a', 32); r = s.wire('r', 32); p = s.wire('p_lost')
    return FP.InttoFP_SP(s, 'dut', a, r, p), {'a': a}, {'r': r, 'p_lost': p}


def _i2f_spec(c, I, W, O):
    x = sx(I['a'], 32); n = absval(x)
    sr, er, fr = parts(O['r'])
    k = sub(er, 127)                                  # result = (2**23+fr) * 2**(k-23)
    okk = band_(ge(k, 0), le(k, 31))
    ks = ir.clamp(k, 0, 31)
    R23 = shl(add(1 << 23, fr), ks)                   # |result| * 2**23
    N23 = mul(n, 1 << 23)
    trunc = band_(okk, le(R23, N23), lt(N23, add(R23, pow2(ks))))      # largest float magnitude not above |x|
    return {'pred:zero': implies(eq(x, 0), eq(O['r'], 0)),
            'pred:truncated-toward-zero': implies(ne(x, 0), band_(trunc, eq(sr, b2i(lt(x, 0))))),
            'pred:p_lost-iff-discarded': implies(ne(x, 0), eq(O['p_lost'], b2i(ne(R23, N23)))),
            'pred:p_lost-zero': implies(eq(x, 0), eq(O['p_lost'], 0))}


block('InttoFP_SP', props=('C13',), file=F, make=_mk_i2f, spec=_i2f_spec, cfgs=lambda t: [dict()], timeout=300)


# ---------------------------------------------------------------------------------------------- float -> int
def _mk_f2i(s, c):
    a = s.wire('a', 32); r = s.wire('r', 32); p = s.wire('p_lost'); d = s.wire('denorm'); inv = s.wire('invalid')
    return FP.FPtoInt_SP(s, 'dut', a, r, p, d, inv), {'a': a}, {'r': r, 'p_lost': p, 'denorm': d, 'invalid': inv}


def _f2i_spec(c, I, W, O):
    s, e, f = parts(I['a'])
    m = add(1 << 23, f)
    k = sub(e, 127)
    # |value| = m * 2**(k-23);  |value| >= 2**31  <=>  k >= 31
    big = ge(k, 31)
    kk = ir.clamp(k, 0, 30)
    v46 = shl(m, kk)                                  # |value| * 2**23 for 0 <= k < 31
    n = ite(ge(k, 0), fdiv(v46, 1 << 23), 0)          # trunc(|value|)
    lost = ite(ge(k, 0), ne(mod(v46, 1 << 23), 0), ir.TRUE)
    res = ite(eq(s, 1), neg(n), n)
    return {'pred:invalid-iff-too-big': eq(O['invalid'], b2i(big)),
            'pred:truncated-toward-zero': implies(not_(big), eq(O['r'], M(res, 32))),
            'pred:p_lost-iff-discarded': implies(not_(big), eq(O['p_lost'], b2i(lost))),
            'pred:denorm-flag': eq(O['denorm'], 0)}


block('FPtoInt_SP', props=('C13',), file=F, make=_mk_f2i, spec=_f2i_spec, requires=lambda c, I: [normal(I['a'])],
      cfgs=lambda t: [dict()], timeout=300)


# ---------------------------------------------------------------------------------------------- multiplier
def _mk_fpmul(s, c):
    a = s.wire('a', 32); b = s.wire('b', 32); r = s.wire('r', 32)
    return FP.FPMult_SP(s, 'dut', a, b, r), {'a': a, 'b': b}, {'r': r}


def _fpmul_domain(I):
    sa, ea, fa = parts(I['a']); sb, eb, fb = parts(I['b'])
    P = mul(add(1 << 23, fa), add(1 << 23, fb))       # exact product = P * 2**(E - 300)
    E = add(ea, eb)
    # exact result normal:  2**-126 <= P * 2**(E-300) < 2**128
    lo_ok = ite(le(E, 174), ge(P, pow2(ir.clamp(sub(174, E), 0, 174))), ir.TRUE)
    hi_ok = ite(le(E, 428), ite(ge(E, 380), lt(P, pow2(ir.clamp(sub(428, E), 0, 48))), ir.TRUE), ir.FALSE)
    return P, E, band_(normal(I['a']), normal(I['b']), lo_ok, hi_ok)


def _fpmul_spec(c, I, W, O):
    sa, ea, fa = parts(I['a']); sb, eb, fb = parts(I['b'])
    P, E, dom = _fpmul_domain(I)
    sr, er, fr = parts(O['r'])
    d = sub(add(er, 150), E)                          # r = (2**23+fr) * 2**(er-150) = ((2**23+fr) << d) * 2**(E-300)
    okd = band_(ge(d, 0), le(d, 64))
    dd = ir.clamp(d, 0, 64)
    Rr = shl(add(1 << 23, fr), dd)
    err = absval(sub(Rr, P))
    return {'pred:error-below-one-ulp': band_(okd, lt(err, pow2(dd)), band_(ge(er, 1), le(er, 254))),
            'pred:sign': eq(sr, mod(add(sa, sb), 2)),
            'pred:commutative': eq(O['r'], O["r'"])}


block('FPMult_SP', props=('C13',), file=F, make=_mk_fpmul, spec=_fpmul_spec, swap=('a', 'b'), opaque_mul=True,
      requires=lambda c, I: [_fpmul_domain(I)[2]], cfgs=lambda t: [dict()], timeout=300)


# ---------------------------------------------------------------------------------------------- adder
def _mk_fpadd(s, c):
    a = s.wire('a', 32); b = s.wire('b', 32); r = s.wire('r', 32)
    return FP.FPAdder_SP(s, 'dut', a, b, r), {'a': a, 'b': b}, {'r': r}


GUARD = 26      # fractional bits kept below the smaller operand's last place, so that every quantity is an integer


def _fpadd_terms(c, I):
    """everything in units of 2**(e_small - 150 - GUARD), where e_small is the smaller exponent; the slice fixes
    gap = e_large - e_small and which operand carries the larger exponent"""
    g = c['gap']
    big, small = ('a', 'b') if c['larger'] == 'a' else ('b', 'a')
    sB, eB, fB = parts(I[big]); sS, eS, fS = parts(I[small])
    MB = add(1 << 23, fB); MS = add(1 << 23, fS)
    vB = mul(MB, 1 << (g + GUARD)); vS = mul(MS, 1 << GUARD)
    exact = add(ite(eq(sB, 1), neg(vB), vB), ite(eq(sS, 1), neg(vS), vS))
    slice_ = eq(eB, add(eS, g))
    if c.get('op') == 'add': slice_ = band_(slice_, eq(sB, sS))
    if c.get('op') == 'sub': slice_ = band_(slice_, ne(sB, sS))
    if c.get('top') is not None:
        # |exact| in [2**top, 2**(top+1)): position of the leading bit of the exact sum (cancellation depth)
        slice_ = band_(slice_, ge(absval(exact), 1 << c['top']), lt(absval(exact), 1 << (c['top'] + 1)))
    # exact result normal: 2**-126 <= |exact| * 2**(eS - 150 - GUARD) < 2**128
    ae = absval(exact)
    lo_ok = ite(le(eS, 24 + GUARD), ge(ae, pow2(ir.clamp(sub(24 + GUARD, eS), 0, 24 + GUARD))), ne(ae, 0))
    hi_ok = lt(ae, pow2(ir.clamp(sub(278 + GUARD, eS), 0, 278 + GUARD)))
    dom = band_(normal(I['a']), normal(I['b']), slice_, lo_ok, hi_ok)
    return exact, eS, dom


def _fpadd_spec(c, I, W, O):
    g = c['gap']
    exact, eS, dom = _fpadd_terms(c, I)
    sr, er, fr = parts(O['r'])
    d = add(sub(er, eS), GUARD)                       # r = (2**23+fr) << d  in the same units
    okd = band_(ge(d, 0), le(d, g + GUARD + 2))
    Rm = shl(add(1 << 23, fr), ir.clamp(d, 0, g + GUARD + 2))
    Rv = ite(eq(sr, 1), neg(Rm), Rm)
    ulp_larger = 1 << (g + GUARD)
    return {'pred:sign-of-exact-sum': eq(sr, b2i(lt(exact, 0))),
            'pred:error-below-two-ulp-of-larger-operand': band_(okd, lt(absval(sub(Rv, exact)), 2 * ulp_larger)),
            'pred:commutative': eq(O['r'], O["r'"])}


def _fpadd_cfgs(t):
    gaps = [0, 1, 2, 3] + list(range(22, 34)) + [64, 128, 253] if t == 'quick' else list(range(0, 254))
    return [dict(gap=g, larger=l, op=op) for g in gaps for l in (('a', 'b') if g else ('a',)) for op in ('add', 'sub')]


_MANT = [0, 1, 2, 3, (1 << 23) - 1, (1 << 23) - 2, 1 << 22, (1 << 22) - 1, (1 << 22) + 1, 0x2AAAAA, 0x555555]


def _fpadd_sampler(c, rnd):
    g = c['gap']
    eS = rnd.choice([1, 2, 24, 25, 26, 27, 100, 127, 128, 200, 254 - g, max(1, 253 - g), rnd.randint(1, 254 - g)])
    eS = min(max(eS, 1), 254 - g); eB = eS + g
    fS = rnd.choice(_MANT + [rnd.getrandbits(23), rnd.getrandbits(23)]); fB = rnd.choice(_MANT + [rnd.getrandbits(23), rnd.getrandbits(23)])
    if rnd.random() < 0.3: fS = (fB + rnd.choice([-2, -1, 0, 1, 2])) % (1 << 23)     # near-cancellation
    sB = rnd.getrandbits(1); sS = sB if c.get('op') == 'add' else 1 - sB if c.get('op') == 'sub' else rnd.getrandbits(1)
    big = (sB << 31) | (eB << 23) | fB; small = (sS << 31) | (eS << 23) | fS
    return {'in:a': big, 'in:b': small} if c['larger'] == 'a' else {'in:a': small, 'in:b': big}


block('FPAdder_SP', props=('C13',), file=F, make=_mk_fpadd, spec=_fpadd_spec, swap=('a', 'b'), sampler=_fpadd_sampler, no_cvc5=True,
      requires=lambda c, I: [_fpadd_terms(c, I)[2]], cfgs=_fpadd_cfgs, timeout=lambda t: 45 if t == 'quick' else 400)
