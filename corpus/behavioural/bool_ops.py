import py4hw
class BoolOps(py4hw.Logic):
    """and / or / not in conditions"""
    def __init__(self, parent, name, a, b, r):
        super().__init__(parent, name)
        self.a = self.addIn('a', a); self.b = self.addIn('b', b); self.r = self.addOut('r', r)
        self.n = 0
    def clock(self):
        if (self.a.get() > 3 and self.b.get() < 9) or not (self.a.get() == self.b.get()):
            self.n = self.n + 1
            self.r.prepare(1)
        else:
            self.r.prepare(0)
        if (self.n >= 100):
            self.n = 0
def make(s):
    return BoolOps(s, 'u', s.wire('a', 4), s.wire('b', 4), s.wire('r', 1))
