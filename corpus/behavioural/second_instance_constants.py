import io, contextlib
import py4hw
class ModCounterK(py4hw.Logic):
    """constructor arguments used as constants; a sibling instance with OTHER constants is transpiled first in the same process"""
    def __init__(self, parent, name, inc, q, limit, step):
        super().__init__(parent, name)
        self.inc = self.addIn('inc', inc); self.q = self.addOut('q', q)
        self.limit = limit
        self.step = step
        self.count = 0
    def clock(self):
        if (self.inc.get() == 1):
            self.count = self.count + self.step
            if (self.count >= self.limit):
                self.count = self.count - self.limit
        self.q.prepare(self.count)
def make(s):
    first = ModCounterK(s, 'first', s.wire('inc0'), s.wire('q0', 8), 5, 1)
    with contextlib.redirect_stdout(io.StringIO()):
        py4hw.VerilogGenerator(first).getVerilogForHierarchy()
    return ModCounterK(s, 'u', s.wire('inc'), s.wire('q', 8), 12, 5)
