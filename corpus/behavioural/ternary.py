import py4hw
class Ternary(py4hw.Logic):
    """conditional expression on the right-hand side of an assignment"""
    def __init__(self, parent, name, b, r):
        super().__init__(parent, name)
        self.b = self.addIn('b', b); self.r = self.addOut('r', r)
        self.state = 0
    def clock(self):
        self.state = 2 if self.b.get() else 0
        self.r.prepare(self.state)
def make(s):
    return Ternary(s, 'u', s.wire('b', 1), s.wire('r', 2))
