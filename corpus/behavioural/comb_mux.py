import py4hw
class CombMux(py4hw.Logic):
    """propagate(): combinational, every path writes the output"""
    def __init__(self, parent, name, sel, a, b, r):
        super().__init__(parent, name)
        self.sel = self.addIn('sel', sel); self.a = self.addIn('a', a); self.b = self.addIn('b', b); self.r = self.addOut('r', r)
    def propagate(self):
        if (self.sel.get() == 0):
            self.r.put(self.a.get() + 1)
        elif (self.sel.get() == 1):
            self.r.put(self.b.get() ^ self.a.get())
        else:
            self.r.put(~self.a.get())
def make(s):
    return CombMux(s, 'u', s.wire('sel', 2), s.wire('a', 8), s.wire('b', 8), s.wire('r', 8))
