import py4hw
class LocalsAndConst(py4hw.Logic):
    """local variables and a constructor argument used as a constant"""
    def __init__(self, parent, name, a, r, k):
        super().__init__(parent, name)
        self.a = self.addIn('a', a); self.r = self.addOut('r', r)
        self.k = k
        self.last = 0
    def clock(self):
        x = self.a.get() + self.k
        y = x & 15
        if (y > self.last):
            self.last = y
        self.r.prepare(y + self.last)
def make(s):
    return LocalsAndConst(s, 'u', s.wire('a', 8), s.wire('r', 8), 5)
