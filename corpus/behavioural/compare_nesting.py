import py4hw
class CompareNesting(py4hw.Logic):
    """comparisons and modulo nested inside arithmetic"""
    def __init__(self, parent, name, a, b, r):
        super().__init__(parent, name)
        self.a = self.addIn('a', a); self.b = self.addIn('b', b); self.r = self.addOut('r', r)
        self.k = 0
    def clock(self):
        self.k = self.a.get() % ((self.b.get() % 5) + 1)
        if ((self.a.get() > self.b.get()) == (self.b.get() > 3)):
            self.r.prepare(1)
        else:
            self.r.prepare(0)
def make(s):
    return CompareNesting(s, 'u', s.wire('a', 6), s.wire('b', 4), s.wire('r', 1))
