import py4hw
class IfElifChain(py4hw.Logic):
    """if/elif/else nest, comparisons, state attribute, prepare/get"""
    def __init__(self, parent, name, a, b, r):
        super().__init__(parent, name)
        self.a = self.addIn('a', a); self.b = self.addIn('b', b); self.r = self.addOut('r', r)
        self.state = 0
    def clock(self):
        if (self.state == 0):
            if (self.a.get() > self.b.get()):
                self.state = 1
                self.r.prepare(self.a.get())
            elif (self.a.get() == self.b.get()):
                self.state = 2
            else:
                self.r.prepare(self.b.get())
        elif (self.state == 1):
            self.state = 2
            self.r.prepare(0)
        else:
            self.state = 0
def make(s):
    return IfElifChain(s, 'u', s.wire('a', 8), s.wire('b', 8), s.wire('r', 8))
