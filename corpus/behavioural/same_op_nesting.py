import py4hw
class SameOpNesting(py4hw.Logic):
    """the same non-associative operator nested on its right: a-(b-c), a//(b//c), a>>(b>>c), a<<(b<<c), (a-b)-c"""
    def __init__(self, parent, name, a, b, c, r, s, t):
        super().__init__(parent, name)
        self.a = self.addIn('a', a); self.b = self.addIn('b', b); self.c = self.addIn('c', c)
        self.r = self.addOut('r', r); self.s = self.addOut('s', s); self.t = self.addOut('t', t)
        self.x = 0
        self.y = 0
    def clock(self):
        self.x = (self.a.get() + 64) - (self.b.get() - (self.b.get() & self.c.get()))
        self.y = self.a.get() // ((self.b.get() | 8) // ((self.c.get() & 3) + 1))
        self.r.prepare(self.a.get() >> (self.b.get() >> (self.c.get() & 3)))
        self.s.prepare((self.a.get() & 15) << ((self.b.get() & 1) << (self.c.get() & 1)))
        self.t.prepare(((self.a.get() + 32) - (self.b.get() & 15)) - (self.c.get() & 15))
def make(s):
    return SameOpNesting(s, 'u', s.wire('a', 6), s.wire('b', 4), s.wire('c', 4), s.wire('r', 6), s.wire('s', 8), s.wire('t', 8))
