import py4hw
class MatchCase(py4hw.Logic):
    """match / case on a state variable"""
    def __init__(self, parent, name, go, r):
        super().__init__(parent, name)
        self.go = self.addIn('go', go); self.r = self.addOut('r', r)
        self.state = 0
    def clock(self):
        match self.state:
            case 0:
                if (self.go.get()):
                    self.state = 1
                self.r.prepare(0)
            case 1:
                self.state = 2
                self.r.prepare(5)
            case _:
                self.state = 0
                self.r.prepare(7)
def make(s):
    return MatchCase(s, 'u', s.wire('go', 1), s.wire('r', 3))
