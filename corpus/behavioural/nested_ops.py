import py4hw
class NestedOps(py4hw.Logic):
    """nested operators with different precedence: checks parenthesisation"""
    def __init__(self, parent, name, a, b, c, r):
        super().__init__(parent, name)
        self.a = self.addIn('a', a); self.b = self.addIn('b', b); self.c = self.addIn('c', c); self.r = self.addOut('r', r)
        self.t = 0
    def clock(self):
        self.t = (self.a.get() - (self.b.get() & 3)) * 2 + ((self.c.get() | 1) << (self.b.get() & 1))
        self.r.prepare(self.t >> 1)
def make(s):
    return NestedOps(s, 'u', s.wire('a', 8), s.wire('b', 8), s.wire('c', 8), s.wire('r', 12))
