import io, contextlib
import py4hw
class ThresholdK(py4hw.Logic):
    """combinational block with a constructor constant; a sibling with another constant is transpiled first"""
    def __init__(self, parent, name, a, r, level):
        super().__init__(parent, name)
        self.a = self.addIn('a', a); self.r = self.addOut('r', r)
        self.level = level
    def propagate(self):
        if (self.a.get() > self.level):
            self.r.put(1)
        else:
            self.r.put(0)
def make(s):
    first = ThresholdK(s, 'first', s.wire('a0', 8), s.wire('r0'), 3)
    with contextlib.redirect_stdout(io.StringIO()):
        py4hw.VerilogGenerator(first).getVerilogForHierarchy()
    return ThresholdK(s, 'u', s.wire('a', 8), s.wire('r'), 100)
