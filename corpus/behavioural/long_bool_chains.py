import py4hw
class LongBoolChains(py4hw.Logic):
    """and / or chains of 3, 5 and 6 operands (folded pairwise by the transpiler)"""
    def __init__(self, parent, name, a, b, c, r):
        super().__init__(parent, name)
        self.a = self.addIn('a', a); self.b = self.addIn('b', b); self.c = self.addIn('c', c); self.r = self.addOut('r', r)
        self.k = 0
    def clock(self):
        self.k = 0
        if (self.a.get() > 3 and self.b.get() < 12 and self.c.get() != 0):
            self.k = self.k + 1
        if (self.a.get() == 1 or self.b.get() == 2 or self.c.get() == 3):
            self.k = self.k + 2
        if (self.a.get() > 0 and self.b.get() > 1 and self.c.get() > 2 and self.a.get() < 14 and self.b.get() < 13):
            self.k = self.k + 4
        if (self.a.get() == 9 or self.b.get() == 9 or self.c.get() == 9 or self.a.get() == 0 or self.b.get() == 0 or self.c.get() == 15):
            self.k = self.k + 8
        self.r.prepare(self.k)
def make(s):
    return LongBoolChains(s, 'u', s.wire('a', 4), s.wire('b', 4), s.wire('c', 4), s.wire('r', 4))
