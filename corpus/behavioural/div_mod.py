import py4hw
class DivMod(py4hw.Logic):
    """// and % on non-negative operands with a non-zero constant divisor"""
    def __init__(self, parent, name, a, q, m):
        super().__init__(parent, name)
        self.a = self.addIn('a', a); self.q = self.addOut('q', q); self.m = self.addOut('m', m)
        self.cnt = 0
    def clock(self):
        self.q.prepare(self.a.get() // 10)
        self.m.prepare(self.a.get() % 10)
        self.cnt = (self.cnt + 1) % 7
def make(s):
    return DivMod(s, 'u', s.wire('a', 8), s.wire('q', 8), s.wire('m', 4))
