import py4hw
class RhsNesting(py4hw.Logic):
    """operator expressions as the RIGHT operand of a comparison"""
    def __init__(self, parent, name, a, b, r):
        super().__init__(parent, name)
        self.a = self.addIn('a', a); self.b = self.addIn('b', b); self.r = self.addOut('r', r)
        self.k = 0
    def clock(self):
        self.k = 0
        if (self.a.get() == (self.b.get() & 15)):
            self.k = self.k + 1
        if (self.a.get() < (self.b.get() | 1)):
            self.k = self.k + 2
        if (self.a.get() != (self.b.get() ^ 5)):
            self.k = self.k + 4
        if (self.a.get() >= (self.b.get() >> 1)):
            self.k = self.k + 8
        self.r.prepare(self.k)
def make(s):
    return RhsNesting(s, 'u', s.wire('a', 7), s.wire('b', 7), s.wire('r', 4))
