import py4hw
class BitwiseInCompare(py4hw.Logic):
    """bitwise / shift / arithmetic sub-expressions as the LEFT operand of a comparison (Verilog: == binds tighter than & ^ |)"""
    def __init__(self, parent, name, a, b, r):
        super().__init__(parent, name)
        self.a = self.addIn('a', a); self.b = self.addIn('b', b); self.r = self.addOut('r', r)
        self.k = 0
    def clock(self):
        self.k = 0
        if ((self.a.get() & 3) == 1):
            self.k = self.k + 1
        if ((self.a.get() ^ self.b.get()) > 64):
            self.k = self.k + 2
        if ((self.a.get() | self.b.get()) != 127):
            self.k = self.k + 4
        if ((self.a.get() >> 2) < self.b.get()):
            self.k = self.k + 8
        if ((self.a.get() + self.b.get()) >= 130):
            self.k = self.k + 16
        self.r.prepare(self.k)
def make(s):
    return BitwiseInCompare(s, 'u', s.wire('a', 7), s.wire('b', 7), s.wire('r', 5))
