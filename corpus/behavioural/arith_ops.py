import py4hw
class ArithOps(py4hw.Logic):
    """+ - * & | ^ << >> on ports and a state variable"""
    def __init__(self, parent, name, a, b, r, s):
        super().__init__(parent, name)
        self.a = self.addIn('a', a); self.b = self.addIn('b', b); self.r = self.addOut('r', r); self.s = self.addOut('s', s)
        self.acc = 3
    def clock(self):
        self.r.prepare((self.a.get() + self.b.get()) & 255)
        self.s.prepare(((self.a.get() * 3) ^ (self.b.get() >> 1)) | (self.a.get() << 2))
        self.acc = (self.acc + self.a.get()) & 1023
def make(s):
    return ArithOps(s, 'u', s.wire('a', 8), s.wire('b', 8), s.wire('r', 8), s.wire('s', 12))
