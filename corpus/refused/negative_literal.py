import py4hw
class NegativeLiteral(py4hw.Logic):
    def __init__(self, parent, name, a, r):
        super().__init__(parent, name)
        self.a = self.addIn('a', a); self.r = self.addOut('r', r)
        self.x = 0
    def clock(self):
        self.x = self.a.get() + (-3)
        self.r.prepare(self.x & 15)
def make(s):
    return NegativeLiteral(s, 'u', s.wire('a', 4), s.wire('r', 4))
