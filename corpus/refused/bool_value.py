import py4hw
class BoolValue(py4hw.Logic):
    """and/or used as VALUES (Python returns an operand, Verilog && returns 0/1)"""
    def __init__(self, parent, name, a, b, r):
        super().__init__(parent, name)
        self.a = self.addIn('a', a); self.b = self.addIn('b', b); self.r = self.addOut('r', r)
        self.x = 0
    def clock(self):
        self.x = self.a.get() or self.b.get()
        self.r.prepare(self.x)
def make(s):
    return BoolValue(s, 'u', s.wire('a', 4), s.wire('b', 4), s.wire('r', 4))
