import py4hw
class ChainedCompare(py4hw.Logic):
    def __init__(self, parent, name, a, r):
        super().__init__(parent, name)
        self.a = self.addIn('a', a); self.r = self.addOut('r', r)
        self.x = 0
    def clock(self):
        if (1 < self.a.get() < 6):
            self.r.prepare(1)
        else:
            self.r.prepare(0)
def make(s):
    return ChainedCompare(s, 'u', s.wire('a', 4), s.wire('r', 1))
