import py4hw
class AttrNotPort(py4hw.Logic):
    """attribute name differs from the port name"""
    def __init__(self, parent, name, a, r):
        super().__init__(parent, name)
        self.inp = self.addIn('a', a); self.res = self.addOut('r', r)
        self.x = 0
    def clock(self):
        self.x = self.inp.get() + 1
        self.res.prepare(self.x & 15)
def make(s):
    return AttrNotPort(s, 'u', s.wire('a', 4), s.wire('r', 4))
