import py4hw
class Loop(py4hw.Logic):
    def __init__(self, parent, name, a, r):
        super().__init__(parent, name)
        self.a = self.addIn('a', a); self.r = self.addOut('r', r)
        self.acc = 0
    def clock(self):
        t = 0
        for i in range(3):
            t = t + self.a.get()
        self.r.prepare(t)
def make(s):
    return Loop(s, 'u', s.wire('a', 4), s.wire('r', 8))
