import py4hw
class Subscript(py4hw.Logic):
    def __init__(self, parent, name, a, r):
        super().__init__(parent, name)
        self.a = self.addIn('a', a); self.r = self.addOut('r', r)
        self.table = [3, 1, 4, 1]
        self.x = 0
    def clock(self):
        self.x = self.table[self.a.get() & 3]
        self.r.prepare(self.x)
def make(s):
    return Subscript(s, 'u', s.wire('a', 4), s.wire('r', 4))
