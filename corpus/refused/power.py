import py4hw
class Power(py4hw.Logic):
    def __init__(self, parent, name, a, r):
        super().__init__(parent, name)
        self.a = self.addIn('a', a); self.r = self.addOut('r', r)
        self.x = 0
    def clock(self):
        self.x = self.a.get() ** 2
        self.r.prepare(self.x)
def make(s):
    return Power(s, 'u', s.wire('a', 4), s.wire('r', 8))
