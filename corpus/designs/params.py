"""parameterised blocks for the C03 / C01 design sets (parameter declarations, overrides, forwarding under other names)"""
import py4hw


class ParamReg(py4hw.Logic):
    def __init__(self, parent, name, a, load, r, init_value):
        super().__init__(parent, name)
        self.a = self.addIn('a', a); self.load = self.addIn('load', load); self.r = self.addOut('r', r)
        self.addParameter('INIT', init_value)

    def structureName(self):
        return 'ParamReg_{}'.format(self.r.getWidth())

    def clock(self):
        if (self.load.get()):
            self.r.prepare(self.a.get())


class Mid(py4hw.Logic):
    def __init__(self, parent, name, a, load, r, start, pname='START', literal=7):
        super().__init__(parent, name)
        self.addIn('a', a); self.addIn('load', load); self.addOut('r', r)
        self.addParameter(pname, start)
        r1 = self.wire('r1', r.getWidth()); r2 = self.wire('r2', r.getWidth())
        ParamReg(self, 'p1', a, load, r1, self.getParameter(pname))
        ParamReg(self, 'p2', a, load, r2, literal)
        py4hw.Add(self, 'add', r1, r2, r)


def forwarded(t, s, top_name='BOOT', mid_name='START'):
    a = s.wire('a', 8); load = s.wire('load'); r = s.wire('r', 8)
    t.addIn('a', a); t.addIn('load', load); t.addOut('r', r)
    t.addParameter(top_name, 3)
    Mid(t, 'm', a, load, r, t.getParameter(top_name), pname=mid_name)
